package data

// Witness for C01 (views compose): a slice of a stepped slice must address
// element loc + i*step of its parent.

import (
	"fmt"
	"testing"
)

func TestOwvcWitness(t *testing.T) {
	a := ARangeFloat64(16)
	s1 := a.Slice([]int{1}, []int{7}, []int{2}) // elements 1,3,5,...,13
	s2 := s1.Slice([]int{1}, []int{3}, []int{2}) // elements 1,3,5 of s1 = 3,7,11 of a
	want := []float64{3, 7, 11}
	bad := false
	for i, w := range want {
		got := func() (g float64) {
			defer func() {
				if r := recover(); r != nil {
					g = -1
				}
			}()
			return s2.Get([]int{i})
		}()
		fmt.Printf("nested[%d] = %v, parent element = %v\n", i, got, w)
		if got != w {
			bad = true
		}
	}
	if bad {
		fmt.Println("OWVC-WITNESS violated: a slice of a stepped slice does not address loc + i*step of its parent")
	} else {
		fmt.Println("OWVC-WITNESS holds")
	}
}
