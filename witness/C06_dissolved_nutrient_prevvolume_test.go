package routing

// Witness for the known finding on C06 (in-stream dissolved nutrient with
// decay): the previous reach volume is carried between timesteps but is not a
// state; a restarted run uses the current volume instead.

import (
	"fmt"
	"math"
	"testing"

	"github.com/flowmatters/openwater-core/data"
)

func TestOwvcWitness(t *testing.T) {
	mk := func(vs []float64) data.ND1Float64 {
		a := data.NewArray1DFloat64(len(vs))
		for i, v := range vs {
			a.Set1(i, v)
		}
		return a
	}
	up := []float64{1, 1, 1, 1, 1, 1}
	lat := []float64{0, 0, 0, 0, 0, 0}
	vol := []float64{1000, 4000, 16000, 2000, 500, 8000}
	out := []float64{0.5, 2, 8, 1, 0.2, 4}
	fp := []float64{0, 0, 0, 0, 0, 0}
	run := func(lo, hi int, stored float64) ([]float64, float64) {
		n := hi - lo
		dec, ld, lf, lp := data.NewArray1DFloat64(n), data.NewArray1DFloat64(n), data.NewArray1DFloat64(n), data.NewArray1DFloat64(n)
		s := instreamDissolvedNutrient(mk(up[lo:hi]), mk(lat[lo:hi]), mk(vol[lo:hi]), mk(out[lo:hi]), mk(fp[lo:hi]), stored,
			1, 0, 2, 10, 1000, 0.5, 86400, dec, ld, lf, lp)
		return ld.Unroll(), s
	}
	whole, _ := run(0, 6, 0)
	a, s := run(0, 3, 0)
	b, _ := run(3, 6, s)
	split := append(a, b...)
	bad := false
	for i := range whole {
		if math.Abs(whole[i]-split[i]) > 1e-9*(1+math.Abs(whole[i])) {
			fmt.Printf("step %d: uninterrupted downstream load %.9g, split run %.9g\n", i, whole[i], split[i])
			bad = true
		}
	}
	if bad {
		fmt.Println("OWVC-WITNESS violated: the split run does not reproduce the uninterrupted run")
	} else {
		fmt.Println("OWVC-WITNESS holds")
	}
}
