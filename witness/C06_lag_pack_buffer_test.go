package routing

// Witness for C06/C04 (pack-lag-buffer): the state row written back by the Lag
// wrapper must carry the lag buffer returned by the kernel.

import (
	"fmt"
	"testing"
)

func TestOwvcWitness(t *testing.T) {
	packed := packLagStates([]float64{1.5, 2.5, 3.5})
	got := []float64{packed.Get2(0, 0), packed.Get2(0, 1), packed.Get2(0, 2)}
	fmt.Printf("packLagStates([1.5 2.5 3.5]) = %v\n", got)
	if got[0] != 1.5 || got[1] != 2.5 || got[2] != 3.5 {
		fmt.Println("OWVC-WITNESS violated: the lag buffer is not carried in the packed state row")
	} else {
		fmt.Println("OWVC-WITNESS holds")
	}
}
