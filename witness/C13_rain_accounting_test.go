package storage

// Witness for C13 (atmospheric exchange accounting): 10 mm of rain on a
// 1 km^2 reservoir with no inflow, release or evaporation. The volume change
// must equal (inflow - outflow)*dt plus the reported rainfall minus
// evaporation volumes.

import (
	"fmt"
	"math"
	"testing"

	"github.com/flowmatters/openwater-core/data"
)

func TestOwvcWitness(t *testing.T) {
	mk := func(vs ...float64) data.ND1Float64 {
		a := data.NewArray1DFloat64(len(vs))
		for i, v := range vs {
			a.Set1(i, v)
		}
		return a
	}
	dt := 86400.0
	rain, pet, inflow, demand := mk(10, 0), mk(0, 4), mk(0, 0), mk(0, 0)
	tmv, tmc := mk(0, 0), mk(0, 0)
	levels, volumes, areas := mk(0, 10), mk(0, 1e9), mk(1e6, 1e6)
	minRel, maxRel := mk(0, 0), mk(0, 0)
	volTS, outTS, rainVol, evapVol := mk(0, 0), mk(0, 0), mk(0, 0), mk(0, 0)
	v0 := 1e6
	storageWaterBalance(rain, pet, inflow, demand, tmv, tmc, v0, 0, 0, dt, 2, levels, volumes, areas, minRel, maxRel, volTS, outTS, rainVol, evapVol)
	prev := v0
	bad := false
	for i := 0; i < 2; i++ {
		dV := volTS.Get1(i) - prev
		reported := (inflow.Get1(i)-outTS.Get1(i))*dt + (rainVol.Get1(i)-evapVol.Get1(i))*dt
		fmt.Printf("step %d: dV=%v, (inflow-outflow)*dt + (rainfallVolume-evaporationVolume)*dt = %v (rainfallVolume=%v evaporationVolume=%v)\n", i, dV, reported, rainVol.Get1(i), evapVol.Get1(i))
		if math.Abs(dV-reported) > 1e-6*(1+math.Abs(dV)) {
			bad = true
		}
		prev = volTS.Get1(i)
	}
	if bad {
		fmt.Println("OWVC-WITNESS violated: the reported rainfall/evaporation volumes do not account for the volume change")
	} else {
		fmt.Println("OWVC-WITNESS holds")
	}
}
