package cdata

// Witness for C02/C03 (Reshape of the C back-end): reshaping a view gives the view's own
// elements in row-major order, whether or not the view is contiguous.

import (
	"fmt"
	"testing"
)

func TestOwvcWitness(t *testing.T) {
	arr := makefloat64CArrayForTest([]int{3, 4})
	for i := 0; i < 3; i++ {
		for j := 0; j < 4; j++ {
			arr.Set([]int{i, j}, float64(4*i+j))
		}
	}
	view := arr.Slice([]int{0, 1}, []int{3, 2}, nil) // columns 1 and 2: not contiguous
	want := view.Unroll()
	r, err := view.Reshape([]int{6})
	if err != nil {
		fmt.Println("OWVC-WITNESS violated: Reshape of an equal-sized shape failed:", err)
		return
	}
	got := make([]float64, 6)
	for k := 0; k < 6; k++ {
		got[k] = r.Get([]int{k})
	}
	fmt.Printf("view elements (row-major) = %v, reshaped = %v, contiguous = %v\n", want, got, view.Contiguous())
	for k := range want {
		if got[k] != want[k] {
			fmt.Println("OWVC-WITNESS violated: Reshape of a non-contiguous C-backed view returns other elements of the parent, not the view's elements")
			return
		}
	}
	fmt.Println("OWVC-WITNESS holds")
}
