package routing

// Witness for C06 (storage routing ignores its incoming states): one run over
// 2n steps against two runs of n steps with the returned states carried over.

import (
	"fmt"
	"math"
	"testing"

	"github.com/flowmatters/openwater-core/data"
)

func TestOwvcWitness(t *testing.T) {
	mk := func(vs []float64) data.ND1Float64 {
		a := data.NewArray1DFloat64(len(vs))
		for i, v := range vs {
			a.Set1(i, v)
		}
		return a
	}
	inflow := []float64{5, 20, 60, 40, 20, 10, 5, 5}
	zeros := make([]float64, len(inflow))
	run := func(lo, hi int, s, pin, pout float64) ([]float64, []float64, float64, float64, float64) {
		n := hi - lo
		out, sto := data.NewArray1DFloat64(n), data.NewArray1DFloat64(n)
		rs, rin, rout := storageRouting(mk(inflow[lo:hi]), mk(zeros[lo:hi]), mk(zeros[lo:hi]), mk(zeros[lo:hi]),
			s, pin, pout, 0, 3600*6, 0.8, 0, 0, 86400, out, sto)
		return out.Unroll(), sto.Unroll(), rs, rin, rout
	}
	whole, wholeS, _, _, _ := run(0, 8, 0, 0, 0)
	a, aS, s1, in1, out1 := run(0, 4, 0, 0, 0)
	b, bS, _, _, _ := run(4, 8, s1, in1, out1)
	split := append(a, b...)
	splitS := append(aS, bS...)
	bad := false
	for i := range whole {
		if math.Abs(whole[i]-split[i]) > 1e-3*(1+math.Abs(whole[i])) || math.Abs(wholeS[i]-splitS[i]) > 1e-3*(1+math.Abs(wholeS[i])) {
			fmt.Printf("step %d: uninterrupted outflow %.6g storage %.6g, split run outflow %.6g storage %.6g\n", i, whole[i], wholeS[i], split[i], splitS[i])
			bad = true
		}
	}
	if bad {
		fmt.Println("OWVC-WITNESS violated: the split run does not reproduce the uninterrupted run")
	} else {
		fmt.Println("OWVC-WITNESS holds")
	}
}
