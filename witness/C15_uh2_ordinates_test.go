package rr

import (
	"fmt"
	"math"
	"testing"

	"github.com/flowmatters/openwater-core/data"
)

// Witness for C15 (unit-hydrograph ordinates): independent implementation of the published daily GR4J (Perrin et al. 2003).

func refSS1(t, x4 float64) float64 {
	if t <= 0 {
		return 0
	}
	if t < x4 {
		return math.Pow(t/x4, 2.5)
	}
	return 1
}

func refSS2(t, x4 float64) float64 {
	if t <= 0 {
		return 0
	}
	if t <= x4 {
		return 0.5 * math.Pow(t/x4, 2.5)
	}
	if t < 2*x4 {
		return 1 - 0.5*math.Pow(2-t/x4, 2.5)
	}
	return 1
}

func refGR4J(rain, pet []float64, x1, x2, x3, x4 float64) (q []float64, S, R float64) {
	n1 := int(math.Ceil(x4))
	n2 := int(math.Ceil(2 * x4))
	uh1 := make([]float64, n1)
	uh2 := make([]float64, n2)
	for j := 1; j <= n1; j++ {
		uh1[j-1] = refSS1(float64(j), x4) - refSS1(float64(j-1), x4)
	}
	for j := 1; j <= n2; j++ {
		uh2[j-1] = refSS2(float64(j), x4) - refSS2(float64(j-1), x4)
	}
	st1 := make([]float64, n1)
	st2 := make([]float64, n2)
	q = make([]float64, len(rain))
	for d := range rain {
		P, E := rain[d], pet[d]
		var pn, ps, es float64
		if P > E {
			pn = P - E
			w := math.Min(pn/x1, 13)
			tw := math.Tanh(w)
			ps = x1 * (1 - (S/x1)*(S/x1)) * tw / (1 + S/x1*tw)
		} else {
			en := E - P
			w := math.Min(en/x1, 13)
			tw := math.Tanh(w)
			es = S * (2 - S/x1) * tw / (1 + (1-S/x1)*tw)
		}
		S = S - es + ps
		perc := S * (1 - math.Pow(1+math.Pow(4.0/9.0*S/x1, 4), -0.25))
		S -= perc
		pr := perc + (pn - ps)
		for j := 0; j < n1; j++ {
			st1[j] += 0.9 * pr * uh1[j]
		}
		for j := 0; j < n2; j++ {
			st2[j] += 0.1 * pr * uh2[j]
		}
		q9, q1 := st1[0], st2[0]
		copy(st1, st1[1:])
		st1[n1-1] = 0
		copy(st2, st2[1:])
		st2[n2-1] = 0

		F := x2 * math.Pow(R/x3, 3.5)
		R = math.Max(0, R+q9+F)
		qr := R * (1 - math.Pow(1+math.Pow(R/x3, 4), -0.25))
		R -= qr
		qd := math.Max(0, q1+F)
		q[d] = qr + qd
	}
	return
}

func runLibGR4J(rain, pet []float64, x1, x2, x3, x4 float64) ([]float64, float64, float64) {
	n := len(rain)
	r := data.NewArray1DFloat64(n)
	e := data.NewArray1DFloat64(n)
	out := data.NewArray1DFloat64(n)
	for i := 0; i < n; i++ {
		r.Set1(i, rain[i])
		e.Set1(i, pet[i])
	}
	n1 := int(math.Ceil(x4))
	n2 := int(math.Ceil(2 * x4))
	S, R, _, _, _, _ := gr4j(r, e, 0, 0, n1, n2, make([]float64, n2), make([]float64, n1), x1, x2, x3, x4, out)
	q := make([]float64, n)
	for i := 0; i < n; i++ {
		q[i] = out.Get1(i)
	}
	return q, S, R
}

func TestOwvcWitness(t *testing.T) {
	// unit-hydrograph ordinates: x4 = 3 (UH2 has 6 ordinates) and x4 = 0.7
	rain := []float64{0, 5, 0, 400, 0, 0, 0, 12, 0, 0, 250, 30, 0, 0, 0, 0}
	pet := []float64{3, 3, 4, 2, 4, 4, 5, 5, 4, 3, 2, 2, 4, 4, 4, 4}
	bad := 0
	for _, x4 := range []float64{3.0, 0.7, 1.5} {
		want, _, _ := refGR4J(rain, pet, 350, 0, 90, x4)
		got, _, _ := runLibGR4J(rain, pet, 350, 0, 90, x4)
		for d := range want {
			if math.IsNaN(got[d]) || math.Abs(got[d]-want[d]) > 1e-9*(1+math.Abs(want[d])) {
				fmt.Printf("x4=%v day %d: runoff %.9g, published GR4J %.9g\n", x4, d, got[d], want[d])
				bad++
				break
			}
		}
	}
	if bad > 0 {
		fmt.Println("OWVC-WITNESS violated: runoff differs from the published GR4J equations")
	} else {
		fmt.Println("OWVC-WITNESS holds")
	}
}
