package ioextract

// Witness for C08 (selection-count). Package io cannot be built in this sandbox
// (libhdf5 is absent), so the two pure selection helpers are extracted verbatim
// from /repo/io/hdf5_util.go into a scratch package by tools/run_witness_io.sh
// (nothing else of the package is needed to run them).

import (
	"fmt"
	"testing"
)

func TestOwvcWitness(t *testing.T) {
	// indices 0, 3, 6, ... below min(stop=1, size=2): exactly one element (index 0)
	got := sliceSize([]int{0, 1, 3}, 2)
	// indices 0, 2, 4 below 5: three elements
	got2 := sliceSize([]int{0, 5, 2}, 10)
	fmt.Printf("sliceSize([0 1 3], 2) = %d (want 1); sliceSize([0 5 2], 10) = %d (want 3)\n", got, got2)
	if got != 1 || got2 != 3 {
		fmt.Println("OWVC-WITNESS violated: a stepped selection selects fewer elements than the corresponding in-memory slice")
	} else {
		fmt.Println("OWVC-WITNESS holds")
	}
}
