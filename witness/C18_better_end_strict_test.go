package fn

// Witness for the known finding on C18.better-end-strict (hand-written input,
// run against the real code by owvc through an overlay): a monotone function
// whose better bracket end already lies far inside the tolerance; FindRoot
// returns the first trial that meets the tolerance, which is worse than that end.

import (
	"fmt"
	"math"
	"testing"
)

func TestOwvcWitness(t *testing.T) {
	f := func(x float64) float64 { return x * math.Abs(x) } // continuous, non-decreasing
	lo, hi, tol := -1e-3, 1.0, 0.5
	x, delta := FindRoot(f, nil, 0.5, lo, hi, tol, 1e-12, 20)
	better := math.Min(math.Abs(f(lo)), math.Abs(f(hi)))
	fmt.Printf("x=%v delta=%v better_end=%v tolerance=%v\n", x, delta, better, tol)
	if math.Abs(delta) > better {
		fmt.Println("OWVC-WITNESS violated: |delta| exceeds the value at the better end of the initial bracket")
	} else {
		fmt.Println("OWVC-WITNESS holds")
	}
}
