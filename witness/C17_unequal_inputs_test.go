package sim

// Witness for C17 (no panic in Apply: bulk-in-bounds): a request whose input series have different lengths (the second longer)
// model's inputs must still be answered with one JSON document.

import (
	"bytes"
	"fmt"
	"strings"
	"testing"

	"github.com/flowmatters/openwater-core/data"
)

type owvcModel struct{}

func (owvcModel) Description() ModelDescription {
	return ModelDescription{Parameters: []ParameterDescription{NewParameter("k")}, States: []string{"s"}, Inputs: []string{"a", "b"}, Outputs: []string{"o"}}
}
func (owvcModel) InitialiseDimensions(dims []int)             {}
func (owvcModel) FindDimensions(params data.ND2Float64) []int { return nil }
func (owvcModel) ApplyParameters(params data.ND2Float64)      {}
func (owvcModel) InitialiseStates(n int) data.ND2Float64      { return data.NewArray2DFloat64(n, 1) }
func (owvcModel) Run(inputs data.ND3Float64, states data.ND2Float64, outputs data.ND3Float64) {
}

func owvcRun(req string) (out string, panicked interface{}) {
	Catalog["OwvcWitness"] = func() TimeSteppingModel { return owvcModel{} }
	var w bytes.Buffer
	defer func() {
		panicked = recover()
		out = w.String()
	}()
	RunSingleModelJSON(strings.NewReader(req), &w, false)
	return
}

func TestOwvcWitness(t *testing.T) {
	out, p := owvcRun(`{"Name":"OwvcWitness","Inputs":[{"Name":"a","Values":[1,2]},{"Name":"b","Values":[1,2,3]}]}`)
	fmt.Printf("output=%q panic=%v\n", out, p)
	if p != nil {
		fmt.Println("OWVC-WITNESS violated: a request with input series of unequal length crashes the runner")
	} else {
		fmt.Println("OWVC-WITNESS holds")
	}
}
