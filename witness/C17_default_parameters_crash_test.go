package sim_test

// Witness for C17 (the JSON runner does not crash): a request that names a catalogued model
// and gives no parameters runs the model with the description's defaults. For GR4J the
// default X4 is 0, outside its documented range [0.5,4]; the kernel then indexes SH1[-1]
// inside the per-cell goroutine, where the runner's recover cannot reach, and the process
// dies. The request is run in a child process so that the crash can be observed.

import (
	"bytes"
	"fmt"
	"os"
	"os/exec"
	"strings"
	"testing"

	_ "github.com/flowmatters/openwater-core/models"
	"github.com/flowmatters/openwater-core/sim"
)

func TestOwvcWitness(t *testing.T) {
	if os.Getenv("OWVC_WITNESS_CHILD") == "1" {
		var out bytes.Buffer
		sim.RunSingleModelJSON(strings.NewReader(`{"Name":"GR4J","Inputs":[{"Name":"rainfall","Values":[1,2,3]},{"Name":"pet","Values":[0,0,0]}]}`), &out, false)
		fmt.Println("CHILD-DOCUMENT:", out.String())
		return
	}
	cmd := exec.Command(os.Args[0], "-test.run", "^"+t.Name()+"$")
	cmd.Env = append(os.Environ(), "OWVC_WITNESS_CHILD=1")
	b, err := cmd.CombinedOutput()
	s := string(b)
	if err != nil && strings.Contains(s, "panic:") {
		first := s[strings.Index(s, "panic:"):]
		if i := strings.Index(first, "\n"); i > 0 {
			first = first[:i]
		}
		fmt.Println("child process died:", first)
		fmt.Println("OWVC-WITNESS violated: {\"Name\":\"GR4J\"} with three days of input and no parameters crashes the process (default X4 = 0 is outside [0.5,4]; the panic is raised in the model's goroutine, outside the runner's recover); no JSON document is written")
		return
	}
	if strings.Contains(s, "CHILD-DOCUMENT:") {
		fmt.Println("OWVC-WITNESS holds")
		return
	}
	fmt.Println("OWVC-WITNESS inconclusive:", err, truncateW(s))
}

func truncateW(s string) string {
	if len(s) > 300 {
		return s[:300]
	}
	return s
}
