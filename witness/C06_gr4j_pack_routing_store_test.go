package rr

// Witness for C06/C04 (pack-routing-store): the state row written back by the
// GR4J wrapper must carry the routing store R at position 1.

import (
	"fmt"
	"testing"
)

func TestOwvcWitness(t *testing.T) {
	packed := packGR4JStates(10.0, 20.0, 1, 2, []float64{0.5, 0.25}, []float64{0.75})
	got := packed.Get2(0, 1)
	fmt.Printf("packGR4JStates(s=10, r=20, ...): slot 1 = %v\n", got)
	if got != 20.0 {
		fmt.Println("OWVC-WITNESS violated: the routing store written back is not the kernel's R")
	} else {
		fmt.Println("OWVC-WITNESS holds")
	}
}
