package data

// Witness for C02 (Argmax against its arithmetic definition).

import (
	"fmt"
	"testing"
)

func TestOwvcWitness(t *testing.T) {
	v := []int{1, 5, 3}
	r := Argmax(v)
	fmt.Printf("Argmax(%v) = %d\n", v, r)
	if r != 1 {
		fmt.Println("OWVC-WITNESS violated: Argmax does not return the index of the maximum")
	} else {
		fmt.Println("OWVC-WITNESS holds")
	}
}
