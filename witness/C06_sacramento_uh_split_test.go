package rr

// Witness for the known finding on C06 (Sacramento): the unit-hydrograph
// buffer is not part of the state vector, so a run split right after a storm
// loses the flow that is still in the buffer.

import (
	"fmt"
	"math"
	"testing"

	"github.com/flowmatters/openwater-core/data"
)

func TestOwvcWitness(t *testing.T) {
	mk := func(vs []float64) data.ND1Float64 {
		a := data.NewArray1DFloat64(len(vs))
		for i, v := range vs {
			a.Set1(i, v)
		}
		return a
	}
	rain := []float64{0, 80, 120, 0, 0, 0, 0, 0}
	pet := []float64{2, 2, 2, 2, 2, 2, 2, 2}
	run := func(lo, hi int, st [6]float64) ([]float64, [6]float64) {
		n := hi - lo
		aet, ro, imp, sur, bf := data.NewArray1DFloat64(n), data.NewArray1DFloat64(n), data.NewArray1DFloat64(n), data.NewArray1DFloat64(n), data.NewArray1DFloat64(n)
		a, b, c, d, e, f := sacramento(mk(rain[lo:hi]), mk(pet[lo:hi]), st[0], st[1], st[2], st[3], st[4], st[5],
			0.01, 0.1, 0.3, 50, 40, 130, 25, 60, 0.06, 1.0, 40, 0.0, 0.0, 0.01, 0.0, 0.0, 0.3,
			0.2, 0.3, 0.3, 0.15, 0.05, aet, ro, imp, sur, bf)
		return ro.Unroll(), [6]float64{a, b, c, d, e, f}
	}
	whole, _ := run(0, 8, [6]float64{})
	a, st := run(0, 3, [6]float64{})
	b, _ := run(3, 8, st)
	split := append(a, b...)
	bad := false
	for i := range whole {
		if math.Abs(whole[i]-split[i]) > 1e-9*(1+math.Abs(whole[i])) {
			fmt.Printf("step %d: uninterrupted runoff %.6g, split run %.6g\n", i, whole[i], split[i])
			bad = true
		}
	}
	if bad {
		fmt.Println("OWVC-WITNESS violated: the split run does not reproduce the uninterrupted run")
	} else {
		fmt.Println("OWVC-WITNESS holds")
	}
}
