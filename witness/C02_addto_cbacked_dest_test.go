package cdata

// Witness for C02/C03 (whole-array helpers on a C-backed destination): AddTo must
// add the source to the destination element by element, whatever backs the arrays.

import (
	"fmt"
	"testing"

	"github.com/flowmatters/openwater-core/data"
)

func TestOwvcWitness(t *testing.T) {
	dest := makefloat64CArrayForTest([]int{2, 3})
	src := data.NewArrayFloat64([]int{2, 3})
	for i := 0; i < 2; i++ {
		for j := 0; j < 3; j++ {
			dest.Set([]int{i, j}, 1)
			src.Set([]int{i, j}, float64(10*i+j))
		}
	}
	data.AddToFloat64Array(dest, src)
	got := dest.Unroll()
	fmt.Printf("dest after AddTo = %v (want [1 2 3 11 12 13])\n", got)
	if got[1] != 2 || got[5] != 13 {
		fmt.Println("OWVC-WITNESS violated: AddTo leaves a contiguous C-backed destination unchanged (its fast path writes into the copy returned by Unroll)")
	} else {
		fmt.Println("OWVC-WITNESS holds")
	}
}
