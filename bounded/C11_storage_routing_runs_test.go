package routing

// BOUNDED stand-in for the part of C11 about storage routing that the contracts do not reach
// (non-zero inflow bias, routing power below one): the real kernel is run on a deterministic
// sweep of parameters from the stable region and of inflow/lateral series with floods and
// zero-flow spells. A sweep is not a proof; the result is reported as bounded, never as proved.
//
// owvc-bounded: property=C11 pkg=models/routing
//   storage-routing-balance-all-parameters 300 parameter sets (12000 in the thorough tier; bias 0..0.4 with 2*k*bias <= dt, power 0.5..1, k 0.05..0.5 dt/bias-limit, dead storage 0..1e4) x 2 series of 200 steps, no rain or evaporation: storage change = (inflow + lateral - outflow) * dt at every step, outflow and storage never negative

import (
	"fmt"
	"math"
	"os"
	"testing"

	"github.com/flowmatters/openwater-core/data"
)

type owvcRng struct{ s uint64 }

func (r *owvcRng) next() float64 {
	r.s = r.s*6364136223846793005 + 1442695040888963407
	return float64(r.s>>11) / float64(1<<53)
}
func (r *owvcRng) in(lo, hi float64) float64 { return lo + (hi-lo)*r.next() }

func TestOwvcReplay(t *testing.T) {
	const n = 200
	rng := &owvcRng{s: 1101}
	bad := ""
	runs := 0
	sets := 300
	if os.Getenv("OWVC_THOROUGH") != "" { // thorough tier: forty times as many parameter sets
		sets = 12000
	}
	for set := 0; set < sets && bad == ""; set++ {
		dt := []float64{86400, 3600, 21600}[set%3]
		bias := 0.0
		if set%3 != 0 {
			bias = rng.in(0.02, 0.4)
		}
		kmax := 10 * dt
		if bias > 0 {
			kmax = dt / (2 * bias)
		}
		k := rng.in(0.05, 0.5) * kmax
		m := rng.in(0.5, 1.0)
		if set%5 == 0 {
			m = 1.0
		}
		dead := 0.0
		if set%2 == 0 {
			dead = rng.in(0, 1e4)
		}
		for series := 0; series < 2 && bad == ""; series++ {
			in := data.NewArray1DFloat64(n)
			lat := data.NewArray1DFloat64(n)
			rain := data.NewArray1DFloat64(n)
			evap := data.NewArray1DFloat64(n)
			for i := 0; i < n; i++ {
				q := 0.0
				if series == 0 {
					if i%50 < 12 {
						q = rng.in(0, 200) // flood pulses separated by zero-flow spells
					}
				} else {
					q = rng.in(0, 5)
					if rng.next() < 0.1 {
						q = 0
					}
				}
				in.Set1(i, q)
				if rng.next() < 0.3 {
					lat.Set1(i, rng.in(0, 3))
				}
			}
			out := data.NewArray1DFloat64(n)
			sto := data.NewArray1DFloat64(n)
			storageRouting(in, lat, rain, evap, dead, 0, 0, bias, k, m, 0, dead, dt, out, sto)
			runs++
			prevS := dead
			for i := 0; i < n; i++ {
				q, s := out.Get1(i), sto.Get1(i)
				desc := fmt.Sprintf("bias=%.4g k=%.6g power=%.4g deadStorage=%.6g dt=%.0f, series %d, step %d (inflow %.6g, lateral %.6g, previous storage %.9g)", bias, k, m, dead, dt, series, i, in.Get1(i), lat.Get1(i), prevS)
				if math.IsNaN(q) || math.IsNaN(s) || q < 0 || s < 0 {
					bad = fmt.Sprintf("%s: outflow %.9g or storage %.9g is negative or not a number", desc, q, s)
					break
				}
				want := prevS + (in.Get1(i)+lat.Get1(i)-q)*dt
				if math.Abs(s-want) > 1e-6*(1+math.Abs(want)+q*dt) {
					bad = fmt.Sprintf("%s: storage %.9g differs from previous storage + (inflow + lateral - outflow %.9g) * dt = %.9g", desc, s, q, want)
					break
				}
				prevS = s
			}
		}
	}
	if bad != "" {
		fmt.Println("OWVC-BOUNDED storage-routing-balance-all-parameters VIOLATION", bad)
	} else {
		fmt.Printf("OWVC-BOUNDED storage-routing-balance-all-parameters points=%d ok\n", runs)
	}
}
