package cdata

// BOUNDED stand-in for the bulk operations whose contracts are bounded by rank 3 (ApplySlice,
// CopyFrom, the whole-array helpers, Maximum/Minimum): they are run on rank-4 and rank-5
// arrays of both back-ends (whole arrays, row-gapped, stepped and single-plane views) and
// compared with the element-by-element row-major definition computed through Get/Set on
// independent copies. A sweep is not a proof; the result is reported as bounded.
//
// owvc-bounded: property=C02 pkg=data/cdata
//   bulk-operations-rank-4-and-5 ranks 4 and 5, extents 1..4, 40 parent shapes (800 in the thorough tier), 6 view kinds x 2 back-ends x 7 operations (ApplySlice, CopyFrom, AddTo, ApplyFunc1, Scale, Maximum/Minimum, Reshape+Unroll)

import (
	"fmt"
	"os"
	"testing"

	"github.com/flowmatters/openwater-core/data"
)

type owvcRng struct{ s uint64 }

func (r *owvcRng) next() float64 {
	r.s = r.s*6364136223846793005 + 1442695040888963407
	return float64(r.s>>11) / float64(1<<53)
}
func (r *owvcRng) intn(n int) int { return int(r.next() * float64(n)) }

// every index vector of a shape in row-major order
func owvcIndices(shape []int) [][]int {
	out := [][]int{}
	idx := make([]int, len(shape))
	n := 1
	for _, d := range shape {
		n *= d
	}
	for k := 0; k < n; k++ {
		out = append(out, append([]int{}, idx...))
		for a := len(shape) - 1; a >= 0; a-- {
			idx[a]++
			if idx[a] < shape[a] {
				break
			}
			idx[a] = 0
		}
	}
	return out
}

func owvcFill(a data.NDFloat64, rng *owvcRng) {
	for _, ix := range owvcIndices(a.Shape()) {
		a.Set(ix, float64(rng.intn(1000))-300)
	}
}

func owvcSnapshot(a data.NDFloat64) []float64 {
	out := []float64{}
	for _, ix := range owvcIndices(a.Shape()) {
		out = append(out, a.Get(ix))
	}
	return out
}

func TestOwvcReplay(t *testing.T) {
	rng := &owvcRng{s: 4545}
	bad := ""
	cases := 0
	fail := func(format string, args ...interface{}) {
		if bad == "" {
			bad = fmt.Sprintf(format, args...)
		}
	}
	trials := 40
	if os.Getenv("OWVC_THOROUGH") != "" { // thorough tier: twenty times as many parent shapes
		trials = 800
	}
	for trial := 0; trial < trials && bad == ""; trial++ {
		rank := 4 + trial%2
		full := make([]int, rank)
		for a := range full {
			full[a] = 2 + rng.intn(3)
		}
		for backend := 0; backend < 2; backend++ {
			mk := func() data.NDFloat64 {
				if backend == 0 {
					return data.NewArrayFloat64(full)
				}
				return makefloat64CArrayForTest(full)
			}
			for kind := 0; kind < 6 && bad == ""; kind++ {
				// a view of the parent: loc, dims, step per kind
				loc, dims, step := make([]int, rank), make([]int, rank), make([]int, rank)
				for a := 0; a < rank; a++ {
					loc[a], dims[a], step[a] = 0, full[a], 1
				}
				switch kind {
				case 1: // gap in the last axis
					loc[rank-1], dims[rank-1] = 1, full[rank-1]-1
				case 2: // gap in an inner axis
					loc[1], dims[1] = 1, full[1]-1
				case 3: // stepped
					step[rank-1] = 2
					dims[rank-1] = (full[rank-1] + 1) / 2
				case 4: // single plane
					loc[0], dims[0] = full[0]-1, 1
				case 5: // stepped outer axis and gap
					step[0] = 2
					dims[0] = (full[0] + 1) / 2
					loc[2], dims[2] = 1, full[2]-1
				}
				desc := fmt.Sprintf("back-end %d, parent %v, view loc=%v dims=%v step=%v", backend, full, loc, dims, step)
				parent := mk()
				owvcFill(parent, rng)
				view := parent.Slice(loc, dims, step)
				src := data.NewArrayFloat64(dims)
				owvcFill(src, rng)
				ixs := owvcIndices(dims)
				cases++

				// CopyFrom / ApplySlice: the view takes the source's elements, nothing else changes
				before := owvcSnapshot(parent)
				view.CopyFrom(src)
				for _, ix := range ixs {
					if view.Get(ix) != src.Get(ix) {
						fail("%s: after CopyFrom element %v is %v, source has %v", desc, ix, view.Get(ix), src.Get(ix))
					}
				}
				after := owvcSnapshot(parent)
				changed := 0
				for k := range before {
					if before[k] != after[k] {
						changed++
					}
				}
				if changed > len(ixs) {
					fail("%s: CopyFrom changed %d parent elements, the view has %d", desc, changed, len(ixs))
				}
				zero := make([]int, rank)
				owvcFill(src, rng)
				view.ApplySlice(zero, nil, src)
				for _, ix := range ixs {
					if view.Get(ix) != src.Get(ix) {
						fail("%s: after ApplySlice element %v is %v, source has %v", desc, ix, view.Get(ix), src.Get(ix))
					}
				}

				// AddTo, ApplyFunc1, Scale against the element-by-element definition
				old := owvcSnapshot(view)
				owvcFill(src, rng)
				data.AddToFloat64Array(view, src)
				for k, ix := range ixs {
					if view.Get(ix) != old[k]+src.Get(ix) {
						fail("%s: after AddTo element %v is %v, want %v", desc, ix, view.Get(ix), old[k]+src.Get(ix))
					}
				}
				data.ApplyFunc1Float64(view, src, func(v float64) float64 { return 3*v - 1 })
				for _, ix := range ixs {
					if view.Get(ix) != 3*src.Get(ix)-1 {
						fail("%s: after ApplyFunc1 element %v is %v, want %v", desc, ix, view.Get(ix), 3*src.Get(ix)-1)
					}
				}
				data.ScaleFloat64Array(view, src, 0.5)
				for _, ix := range ixs {
					if view.Get(ix) != src.Get(ix)*0.5 {
						fail("%s: after Scale element %v is %v, want %v", desc, ix, view.Get(ix), src.Get(ix)*0.5)
					}
				}

				// Maximum / Minimum
				owvcFill(src, rng)
				view.CopyFrom(src)
				mx, mn := src.Get(ixs[0]), src.Get(ixs[0])
				for _, ix := range ixs {
					if v := src.Get(ix); v > mx {
						mx = v
					} else if v < mn {
						mn = v
					}
				}
				if view.Maximum() != mx || view.Minimum() != mn {
					fail("%s: Maximum/Minimum = %v/%v, want %v/%v", desc, view.Maximum(), view.Minimum(), mx, mn)
				}

				// Unroll and Reshape: the elements in row-major order
				un := view.Unroll()
				flat, err := view.Reshape([]int{len(ixs)})
				if err != nil || len(un) != len(ixs) {
					fail("%s: Unroll has %d elements / Reshape error %v, want %d elements", desc, len(un), err, len(ixs))
				} else {
					for k, ix := range ixs {
						if un[k] != view.Get(ix) || flat.Get([]int{k}) != view.Get(ix) {
							fail("%s: row-major element %d is %v (Unroll) / %v (Reshape), want %v", desc, k, un[k], flat.Get([]int{k}), view.Get(ix))
						}
					}
				}
			}
		}
	}
	if bad != "" {
		fmt.Println("OWVC-BOUNDED bulk-operations-rank-4-and-5 VIOLATION", bad)
	} else {
		fmt.Printf("OWVC-BOUNDED bulk-operations-rank-4-and-5 points=%d ok\n", cases)
	}
}
