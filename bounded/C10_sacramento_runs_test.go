package rr

// BOUNDED stand-in for the clauses of C10 about Sacramento that the contracts do not reach
// (store bounds, and the composition of the proved segment identities into a whole-run balance):
// the real kernel is run on a deterministic sweep of parameter sets from the documented ranges
// and of rainfall/PET series (dry spells, storms), from the zero initial state the model gives
// itself. A sweep is not a proof; the result is reported as bounded, never as proved.
//
// owvc-bounded: property=C10 pkg=models/rr
//   sacramento-no-water-created 400 parameter sets (16000 in the thorough tier; documented ranges, capacities >= 5 mm, pctim+adimp <= 0.9) x 3 series of 400 days: cumulative runoff + actual ET <= cumulative rain (zero initial storage), at every day
//   sacramento-outputs-and-stores 400 parameter sets x 3 series of 400 days: outputs finite and non-negative, runoff = surface runoff + baseflow, the five stores that have a capacity parameter between 0 and it, the additional-impervious store non-negative, at the end of every run

import (
	"fmt"
	"math"
	"os"
	"testing"

	"github.com/flowmatters/openwater-core/data"
)

type owvcRng struct{ s uint64 }

func (r *owvcRng) next() float64 {
	r.s = r.s*6364136223846793005 + 1442695040888963407
	return float64(r.s>>11) / float64(1<<53)
}
func (r *owvcRng) in(lo, hi float64) float64 { return lo + (hi-lo)*r.next() }

func TestOwvcReplay(t *testing.T) {
	const nDays = 400
	rng := &owvcRng{s: 20261001}
	balBad, outBad := "", ""
	runs := 0
	sets := 400
	if os.Getenv("OWVC_THOROUGH") != "" { // thorough tier: forty times as many parameter sets
		sets = 16000
	}
	for set := 0; set < sets && balBad == "" && outBad == ""; set++ {
		lzpk, lzsk, uzk := rng.in(0.001, 1), rng.in(0.001, 1), rng.in(0.01, 1)
		uztwm, uzfwm, lztwm := rng.in(5, 125), rng.in(5, 75), rng.in(5, 300)
		lzfsm, lzfpm := rng.in(5, 300), rng.in(5, 600)
		pfree, rexp, zperc := rng.in(0, 1), rng.in(0, 3), rng.in(0, 80)
		side, ssout := rng.in(0, 1), 0.0
		pctim, adimp := rng.in(0, 0.45), rng.in(0, 0.45)
		sarva, rserv := rng.in(0, 0.3), rng.in(0, 1)
		if set%4 == 0 {
			side, adimp, sarva = 0, 0, 0
		}
		uh := []float64{rng.in(0.01, 1), rng.in(0, 1), rng.in(0, 1), rng.in(0, 1), rng.in(0, 1)}
		for series := 0; series < 3; series++ {
			rain := data.NewArray1DFloat64(nDays)
			pet := data.NewArray1DFloat64(nDays)
			for d := 0; d < nDays; d++ {
				p := 0.0
				switch series {
				case 0: // frequent light rain
					if rng.next() < 0.4 {
						p = rng.in(0, 15)
					}
				case 1: // long dry spells and extreme storms
					if d%97 > 90 {
						p = rng.in(50, 300)
					}
				case 2: // wet season / dry season
					if d%200 < 60 && rng.next() < 0.7 {
						p = rng.in(0, 60)
					}
				}
				rain.Set1(d, p)
				pet.Set1(d, rng.in(0, 9))
			}
			aet, ro, imp, sro, bf := data.NewArray1DFloat64(nDays), data.NewArray1DFloat64(nDays), data.NewArray1DFloat64(nDays), data.NewArray1DFloat64(nDays), data.NewArray1DFloat64(nDays)
			s1, s2, s3, s4, s5, s6 := sacramento(rain, pet, 0, 0, 0, 0, 0, 0,
				lzpk, lzsk, uzk, uztwm, uzfwm, lztwm, lzfsm, lzfpm, pfree, rexp, zperc, side, ssout, pctim, adimp, sarva, rserv,
				uh[0], uh[1], uh[2], uh[3], uh[4], aet, ro, imp, sro, bf)
			runs++
			desc := fmt.Sprintf("parameter set %d (lzpk=%.3g lzsk=%.3g uzk=%.3g uztwm=%.4g uzfwm=%.4g lztwm=%.4g lzfsm=%.4g lzfpm=%.4g pfree=%.3g rexp=%.3g zperc=%.3g side=%.3g pctim=%.3g adimp=%.3g sarva=%.3g rserv=%.3g uh=%.3v), series %d", set, lzpk, lzsk, uzk, uztwm, uzfwm, lztwm, lzfsm, lzfpm, pfree, rexp, zperc, side, pctim, adimp, sarva, rserv, uh, series)
			cumIn, cumOut := 0.0, 0.0
			for d := 0; d < nDays; d++ {
				vals := []float64{aet.Get1(d), ro.Get1(d), imp.Get1(d), sro.Get1(d), bf.Get1(d)}
				for _, v := range vals {
					if math.IsNaN(v) || math.IsInf(v, 0) || v < -1e-9 {
						outBad = fmt.Sprintf("%s, day %d: outputs (actualET, runoff, impervious, surface, baseflow) = %v are not all finite and non-negative", desc, d, vals)
					}
				}
				if outBad == "" && math.Abs(ro.Get1(d)-(sro.Get1(d)+bf.Get1(d))) > 1e-9*(1+math.Abs(ro.Get1(d))) {
					outBad = fmt.Sprintf("%s, day %d: runoff %.9g is not surface runoff %.9g + baseflow %.9g", desc, d, ro.Get1(d), sro.Get1(d), bf.Get1(d))
				}
				cumIn += rain.Get1(d)
				cumOut += ro.Get1(d) + aet.Get1(d)
				if balBad == "" && cumOut > cumIn*(1+1e-9)+1e-6 {
					balBad = fmt.Sprintf("%s, day %d: cumulative runoff + actual ET %.6f exceeds cumulative rainfall %.6f (zero initial storage)", desc, d, cumOut, cumIn)
				}
				if outBad != "" {
					break
				}
			}
			stores := []float64{s1, s2, s3, s4, s5, s6}
			// the additional-impervious-area store has no capacity parameter of its own (its explicit
			// update can overshoot uztwm+lztwm by a fraction of a rain increment): only its sign is checked
			caps := []float64{uztwm, uzfwm, lztwm, lzfpm, lzfsm, math.Inf(1)}
			names := []string{"UprTensionWater", "UprFreeWater", "LwrTensionWater", "LwrPrimaryFreeWater", "LwrSupplFreeWater", "AdditionalImperviousStore"}
			for k := range stores {
				if outBad == "" && (math.IsNaN(stores[k]) || stores[k] < -1e-9 || stores[k] > caps[k]*(1+1e-9)+1e-9) {
					outBad = fmt.Sprintf("%s: final %s = %.9g is outside [0, %.9g]", desc, names[k], stores[k], caps[k])
				}
			}
			if balBad != "" || outBad != "" {
				break
			}
		}
	}
	if balBad != "" {
		fmt.Println("OWVC-BOUNDED sacramento-no-water-created VIOLATION", balBad)
	} else {
		fmt.Printf("OWVC-BOUNDED sacramento-no-water-created points=%d ok\n", runs)
	}
	if outBad != "" {
		fmt.Println("OWVC-BOUNDED sacramento-outputs-and-stores VIOLATION", outBad)
	} else {
		fmt.Printf("OWVC-BOUNDED sacramento-outputs-and-stores points=%d ok\n", runs)
	}
}
