package sim_test

// BOUNDED stand-in for the part of C17 that is about bytes produced by encoding/json and fmt
// (outside the contracts: both are external): a fixed list of request byte strings - valid,
// malformed, unknown model, missing and unequal-length inputs, non-finite inputs - is run
// through the real RunSingleModelJSON; the output must be exactly one JSON document, and for a
// valid Sum request it must equal the direct sum with non-finite numbers written as the strings
// NaN, +Inf, -Inf. A list of cases is not a proof; the result is reported as bounded.
//
// owvc-bounded: property=C17 pkg=sim
//   one-valid-json-document-per-request 24 request byte strings x 2 output layouts

import (
	"bytes"
	"encoding/json"
	"fmt"
	"io"
	"strings"
	"testing"

	_ "github.com/flowmatters/openwater-core/models"
	"github.com/flowmatters/openwater-core/sim"
)

func TestOwvcReplay(t *testing.T) {
	requests := []string{
		``, `{`, `}`, `[]`, `null`, `42`, `"Sum"`, `{"Name":}`, `{"Name":"NoSuchModel"}`, `{"name":"Sum"}`,
		`{"Name":"Sum"}`,
		`{"Name":"Sum","Inputs":[]}`,
		`{"Name":"Sum","Inputs":[{"Name":"i1","Values":[1,2,3]}]}`,
		`{"Name":"Sum","Inputs":[{"Name":"i1","Values":[1,2,3]},{"Name":"i2","Values":[10,20,30]}]}`,
		`{"Name":"Sum","Inputs":[{"Name":"i1","Values":[1,2,3]},{"Name":"i2","Values":[10,20]}]}`,
		`{"Name":"Sum","Inputs":[{"Name":"i2","Values":[1]},{"Name":"i1","Values":[1,2,3,4]}]}`,
		`{"Name":"Sum","Inputs":[{"Name":"nope","Values":[1,2,3]}]}`,
		`{"Name":"Sum","Inputs":[{"Name":"i1","Values":[1e308,1e308]},{"Name":"i2","Values":[1e308,-1e308]}]}`,
		`{"Name":"Sum","Inputs":[{"Name":"i1","Values":[-1e308]},{"Name":"i2","Values":[-1e308]}]}`,
		`{"Name":"Sum","Parameters":[{"Name":"unused","Value":3}],"Inputs":[{"Name":"i1","Values":[5]}]}`,
		`{"Name":"RunoffCoefficient","Parameters":[{"Name":"coeff","Value":0.5}],"Inputs":[{"Name":"rainfall","Values":[0,10,20]}]}`,
		`{"Name":"RunoffCoefficient","Inputs":[{"Name":"rainfall","Values":[0,10,20]}]}`,
		`{"Name":"Sum","Inputs":[{"Name":"i1","Values":"abc"}]}`,
		"{\"Name\":\"Sum\"}\x00\x01garbage",
	}
	bad := ""
	n := 0
	for _, req := range requests {
		for _, split := range []bool{false, true} {
			var out bytes.Buffer
			sim.RunSingleModelJSON(strings.NewReader(req), &out, split)
			n++
			dec := json.NewDecoder(bytes.NewReader(out.Bytes()))
			var doc interface{}
			if err := dec.Decode(&doc); err != nil {
				bad = fmt.Sprintf("request %q (split=%v): output %q is not a JSON document: %v", req, split, truncateB(out.String()), err)
				break
			}
			var more interface{}
			if err := dec.Decode(&more); err != io.EOF {
				bad = fmt.Sprintf("request %q (split=%v): output %q holds more than one JSON document", req, split, truncateB(out.String()))
				break
			}
		}
		if bad != "" {
			break
		}
	}
	if bad == "" {
		// values: the direct sum, with overflow written as strings
		var out bytes.Buffer
		sim.RunSingleModelJSON(strings.NewReader(`{"Name":"Sum","Inputs":[{"Name":"i1","Values":[1,1e308,-1e308]},{"Name":"i2","Values":[2,1e308,-1e308]}]}`), &out, true)
		s := out.String()
		for _, want := range []string{`3`, `"+Inf"`, `"-Inf"`} {
			if !strings.Contains(s, want) {
				bad = fmt.Sprintf("Sum of [1,1e308,-1e308] and [2,1e308,-1e308]: output %q does not contain %s", truncateB(s), want)
			}
		}
	}
	if bad != "" {
		fmt.Println("OWVC-BOUNDED one-valid-json-document-per-request VIOLATION", bad)
	} else {
		fmt.Printf("OWVC-BOUNDED one-valid-json-document-per-request points=%d ok\n", n)
	}
}

func truncateB(s string) string {
	if len(s) > 200 {
		return s[:200] + "..."
	}
	return s
}
