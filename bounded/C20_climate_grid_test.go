package climate

// BOUNDED stand-in for the clauses of C20 that no contract can decide here, because they are
// statements about the transcendental formulas themselves (pow, log10 and log are uninterpreted
// for the solvers): they are evaluated on a grid of the documented input ranges by running the
// real code. A grid is not a proof; the result is reported as bounded, never as proved.
//
// owvc-bounded: property=C20 pkg=models/climate
//   svp-strictly-increasing   dry bulb -40..55 C in steps of 0.001 C (95001 points, adjacent pairs; 0.00005 C in the thorough tier)
//   outputs-finite-and-ordered dry bulb -40..55 step 0.5, humidity 1..100 % step 1, elevation 0..10000 m step 2500

import (
	"fmt"
	"math"
	"os"
	"testing"

	"github.com/flowmatters/openwater-core/data"
)

func TestOwvcReplay(t *testing.T) {
	// (1) saturation vapour pressure is positive and strictly increasing with temperature
	n := 0
	prev := calcVaporPressure(-40)
	bad := ""
	steps, h := 95000, 0.001
	if os.Getenv("OWVC_THOROUGH") != "" { // thorough tier: twenty times finer
		steps, h = 1900000, 0.00005
	}
	for k := 1; k <= steps; k++ {
		temp := -40 + float64(k)*h
		v := calcVaporPressure(temp)
		n++
		if !(v > 0) || math.IsInf(v, 0) || math.IsNaN(v) {
			bad = fmt.Sprintf("calcVaporPressure(%.3f) = %v is not a positive finite number", temp, v)
			break
		}
		if !(v > prev) {
			bad = fmt.Sprintf("calcVaporPressure(%.3f) = %.9f is not above calcVaporPressure(%.3f) = %.9f", temp, v, temp-h, prev)
			break
		}
		prev = v
	}
	if bad != "" {
		fmt.Println("OWVC-BOUNDED svp-strictly-increasing VIOLATION", bad)
	} else {
		fmt.Printf("OWVC-BOUNDED svp-strictly-increasing points=%d ok\n", n)
	}

	// (2) every output of the model is finite, the reported depression is dry bulb minus wet
	// bulb and the wet bulb lies between dew point and dry bulb, on a grid of the input ranges
	var temps, hums []float64
	for temp := -40.0; temp <= 55.0; temp += 0.5 {
		for h := 1.0; h <= 100.0; h += 1 {
			temps = append(temps, temp)
			hums = append(hums, h)
		}
	}
	m := len(temps)
	bad = ""
	pts := 0
	for elev := 0.0; elev <= 10000 && bad == ""; elev += 2500 {
		dry := data.NewArray1DFloat64(m)
		hum := data.NewArray1DFloat64(m)
		for i := 0; i < m; i++ {
			dry.Set1(i, temps[i])
			hum.Set1(i, hums[i])
		}
		vp, dew, wet, dT := data.NewArray1DFloat64(m), data.NewArray1DFloat64(m), data.NewArray1DFloat64(m), data.NewArray1DFloat64(m)
		climateVariables(dry, hum, elev, vp, dew, wet, dT)
		for i := 0; i < m; i++ {
			pts++
			vals := []float64{vp.Get1(i), dew.Get1(i), wet.Get1(i), dT.Get1(i)}
			for _, v := range vals {
				if math.IsNaN(v) || math.IsInf(v, 0) {
					bad = fmt.Sprintf("dry bulb %.1f, humidity %.0f %%, elevation %.0f: outputs %v are not all finite", temps[i], hums[i], elev, vals)
				}
			}
			lo, hi := math.Min(dew.Get1(i), temps[i]), math.Max(dew.Get1(i), temps[i])
			if bad == "" && (wet.Get1(i) < lo-1e-9 || wet.Get1(i) > hi+1e-9) {
				bad = fmt.Sprintf("dry bulb %.1f, humidity %.0f %%, elevation %.0f: wet bulb %.6f is not between dew point %.6f and dry bulb", temps[i], hums[i], elev, wet.Get1(i), dew.Get1(i))
			}
			if bad == "" && math.Abs(dT.Get1(i)-(temps[i]-wet.Get1(i))) > 1e-9 {
				bad = fmt.Sprintf("dry bulb %.1f, humidity %.0f %%, elevation %.0f: reported depression %.9f is not dry bulb minus wet bulb %.9f", temps[i], hums[i], elev, dT.Get1(i), temps[i]-wet.Get1(i))
			}
			if bad != "" {
				break
			}
		}
	}
	if bad != "" {
		fmt.Println("OWVC-BOUNDED outputs-finite-and-ordered VIOLATION", bad)
	} else {
		fmt.Printf("OWVC-BOUNDED outputs-finite-and-ordered points=%d ok\n", pts)
	}
}
