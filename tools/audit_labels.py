#!/usr/bin/env python3
"""Audit of contract labels: clauses that are assumed after they have been checked (callsite,
assert at, prestep/step, labelled invariants, atreturn) feed the later proofs of their function.
If such a clause is labelled for fewer properties than the function's contract serves, the check
of the other properties would use it without counting it. The script lists those clauses; each
line is either a labelling mistake (add the missing property to the label) or a reviewed
independence (the other property's obligations were shown not to need the clause - say so here).

Reviewed and accepted (whole function): gr4j - its C10 step clauses (runoff non-negative, closure)
discharge with every C15 step clause deleted (checked on a scratch copy); the S-curve invariants
that the C10 assertion about the ordinates' sum uses are labelled for C10 as well; its only C04
clause states result lengths and identities and needs none of the others."""
import re, glob
ONLY = {'C05', 'C06', 'C08', 'C14'}   # structural properties: labelled obligations only
ACCEPTED_FUNCS = ('gr4j(',)
n = 0
for f in sorted(glob.glob('/repo/**/verif_contracts*.go', recursive=True)):
    for b in re.split(r'\n(?=//@ (?:func|iface) )', open(f).read()):
        if not b.startswith('//@ func'):
            continue
        name = b.split('\n')[0][8:].strip()
        if name.startswith(ACCEPTED_FUNCS):
            continue
        props = set()
        for l in re.findall(r'\[([A-Za-z0-9.,\- ]+)\]', b):
            for x in l.split(','):
                m = re.match(r'\s*(C\d\d)\.', x)
                if m:
                    props.add(m.group(1))
        for m in re.finditer(r'safety ((?:C\d\d ?)+)', b):
            props |= set(m.group(1).split())
        P = props - ONLY
        if len(P) < 2:
            continue
        for line in b.split('\n'):
            m = re.match(r'//@\s+(callsite \S+|assert at "[^"]*"|loop \d+ (?:step|prestep|invariant)|atreturn \d+)\s+\[([^\]]+)\]', line)
            if not m:
                continue
            lp = {x.strip()[:3] for x in m.group(2).split(',')} - ONLY
            if lp and lp != P:
                print(f.replace('/repo/', ''), '|', name[:50], '|', m.group(1)[:34], '|', sorted(lp), 'of', sorted(P))
                n += 1
print(n, 'clause(s) to review')
