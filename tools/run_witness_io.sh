#!/bin/bash
# usage: tools/run_witness_io.sh <witness file under /verif/witness/io>
# Extracts sliceSize and makeHyperslab verbatim from /repo/io/hdf5_util.go (the only
# functions of package io that do not call libhdf5) into a scratch module and runs the
# witness against them. The scratch directory is removed afterwards.
export GOFLAGS=-mod=mod GOPROXY=off GOSUMDB=off GOTOOLCHAIN=local
d=$(mktemp -d /tmp/owvc_iowit.XXXXXX)
cat > $d/go.mod <<M
module ioextract
go 1.12
require github.com/flowmatters/openwater-core v0.0.0
replace github.com/flowmatters/openwater-core => /repo
M
cp /repo/go.sum $d/ 2>/dev/null
{
  echo 'package ioextract'
  echo 'import "github.com/flowmatters/openwater-core/util/m"'
  awk '/^func makeHyperslab\(/,/^}/' /repo/io/hdf5_util.go
  awk '/^func sliceSize\(/,/^}/' /repo/io/hdf5_util.go
} > $d/extracted.go
cp /verif/witness/io/$1 $d/witness_test.go
(cd $d && go test -vet=off -count=1 -timeout 60s -v -run 'TestOwvcWitness$' . 2>&1 | grep -v "^ok\|^PASS\|^=== RUN\|^--- PASS" | head -20)
rm -rf $d
