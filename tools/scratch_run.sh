#!/bin/bash
# scratch_run.sh <seeded|neutral> [name-filter]
# Applies every stored change of the given corpus to a scratch copy of /repo's working tree
# (under the system temp directory, removed at once - /repo itself is never touched), runs the
# quick check of the change's property on the copy and records the outcome:
#   seeded/  : the check must report a violation  -> seeded/RESULTS.md, meta.json (detected_by)
#   neutral/ : the check must pass                 -> neutral/RESULTS.md
# Up to $JOBS (default 3) changes are processed at the same time.
corpus=${1:-seeded}; filter=${2:-}
JOBS=${JOBS:-3}
cd /verif
run_one() {
  d=$1; corpus=$2
  n=$(basename $d)
  if [ "$corpus" = seeded ]; then p=$(jq -r .breaks_property $d/meta.json); else p=$(jq -r .property $d/meta.json); fi
  s=$(mktemp -d /tmp/owvc_scratch.XXXXXX)
  rsync -a --exclude .git /repo/ $s/repo/
  if ! (cd $s/repo && patch -p1 -s --no-backup-if-mismatch < $d/patch.diff >/dev/null 2>&1); then
    echo "| $n | $p | STALE (patch no longer applies) | |" > $d/.result; rm -rf $s; return
  fi
  res=$(OWVC_SELFTEST_REPO=$s/repo OWVC_SELFTEST_WORK=$s/work VERIF_TIER=quick ./bin/owvc check $p 2>&1); rc=$?
  rm -rf $s
  obls=$(echo "$res" | grep '^VIOLATION' | sed 's/.*replay=[^ ]*\/\([^ /]*\)\.json.*/\1/' | head -3 | tr '\n' ' ')
  if [ "$corpus" = seeded ]; then
    if [ $rc -eq 1 ] && [ -n "$obls" ]; then r=DETECTED; else r="MISSED (rc=$rc)"; fi
    python3 - "$d/meta.json" "$r" "$obls" "$p" <<PY
import json,sys
p,r,o,prop=sys.argv[1:5]
d=json.load(open(p)); d['detected_by']=(prop+': '+o.strip()) if r=='DETECTED' else None; d['last_result']=r
json.dump(d,open(p,'w'),indent=1)
PY
  else
    if [ $rc -eq 0 ]; then r="PASS (no alarm)"; else r="ALARM (rc=$rc)"; fi
  fi
  echo "| $n | $p | $r | $obls |" > $d/.result
}
export -f run_one
ls -d /verif/$corpus/*/ | grep "$filter" | xargs -P $JOBS -I{} bash -c 'run_one {} '"$corpus"
out=$corpus/RESULTS.md
# with a name filter the stored table is left alone (only the selected rows are printed)
[ -n "$filter" ] && out=$(mktemp /tmp/owvc_results.XXXXXX)
if [ "$corpus" = seeded ]; then echo "| seeded change | property | result | failed obligations (first three) |" > $out; else echo "| behaviour-preserving edit | property | result | obligations reported (first three) |" > $out; fi
echo "|---|---|---|---|" >> $out
for d in /verif/$corpus/*/; do [ -f $d/.result ] && cat $d/.result >> $out; done
rm -f /verif/$corpus/*/.result
cat $out
[ -n "$filter" ] && rm -f $out
