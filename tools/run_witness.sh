#!/bin/bash
# usage: tools/run_witness.sh <witness file under /verif/witness> <package dir relative to /repo>
# runs the hand-written witness on the real code of /repo (overlay; nothing is written to /repo)
export GOFLAGS=-mod=mod GOPROXY=off GOSUMDB=off GOTOOLCHAIN=local
w=/verif/witness/$1; pkg=$2
d=$(mktemp -d /tmp/owvc_wit.XXXXXX)
cp "$w" $d/zz_owvc_witness_test.go
echo "{\"Replace\":{\"/repo/$pkg/zz_owvc_witness_test.go\":\"$d/zz_owvc_witness_test.go\"}}" > $d/ov.json
(cd /repo && go test -overlay $d/ov.json -vet=off -timeout 60s -count=1 -v -run 'TestOwvcWitness$' ./$pkg 2>&1 | grep -v "^ok\|^PASS\|^=== RUN\|^--- PASS" | head -20)
rm -rf $d
