#!/bin/bash
# confirm_seed.sh <name> <property> <deliver-dir> <demo-pkg-dir-rel>
# Confirms a seeded change in a scratch worktree of /repo (HEAD): builds, existing tests pass
# with the change, demo fails with it and passes without; then stores it under /verif/seeded/<name>/.
set -u
name=$1; prop=$2; deliver=$3; pkg=$4
export GOFLAGS=-mod=mod GOPROXY=off GOSUMDB=off GOTOOLCHAIN=local
wt=$(mktemp -d /tmp/seedconfirm.XXXXXX)
git -C /repo worktree add -q --detach "$wt/w" HEAD || exit 2
cd "$wt/w"
res() { echo "$1" >> "$wt/log"; }
cp "$deliver/zz_seeded_demo_test.go" "$pkg/zz_seeded_demo_test.go"
go test -vet=off -count=1 -run '^TestSeededDemo$' ./$pkg > "$wt/demo_without.txt" 2>&1; demo_without=$?
if ! git apply "$deliver/patch.diff" 2> "$wt/apply.txt"; then echo "PATCH DOES NOT APPLY to /repo HEAD"; cat "$wt/apply.txt"; git -C /repo worktree remove --force "$wt/w"; rm -rf "$wt"; exit 3; fi
go build ./data/... ./models/... ./util/... ./sim/... ./io/json/... > "$wt/build.txt" 2>&1; build=$?
mv "$pkg/zz_seeded_demo_test.go" "$wt/demo.go.aside"
go test -vet=off -count=1 ./data/... ./util/... ./io/json/... > "$wt/tests.txt" 2>&1; tests=$?
mv "$wt/demo.go.aside" "$pkg/zz_seeded_demo_test.go"
go test -vet=off -count=1 -run '^TestSeededDemo$' ./$pkg > "$wt/demo_with.txt" 2>&1; demo_with=$?
echo "build=$build existing_tests=$tests demo_with_change=$demo_with (want !=0) demo_without_change=$demo_without (want 0)"
ok=0
if [ $build -eq 0 ] && [ $tests -eq 0 ] && [ $demo_with -ne 0 ] && [ $demo_without -eq 0 ]; then ok=1; fi
if [ $ok -eq 1 ]; then
  d=/verif/seeded/$name; mkdir -p $d
  cp "$deliver/patch.diff" $d/patch.diff
  cp "$deliver/zz_seeded_demo_test.go" $d/zz_seeded_demo_test.go
  [ -f "$deliver/notes.txt" ] && cp "$deliver/notes.txt" $d/notes.txt
  python3 - "$name" "$prop" "$pkg" "$d" <<PY
import json,sys,subprocess
name,prop,pkg,d=sys.argv[1:5]
head=subprocess.check_output(['git','-C','/repo','rev-parse','--short','HEAD']).decode().strip()
notes=open(d+'/notes.txt').read() if __import__('os').path.exists(d+'/notes.txt') else ''
json.dump({"name":name,"breaks_property":prop,"demo_package_dir":pkg,
 "confirmed_at_repo_commit":head,
 "what_i_ran":["git worktree add (scratch) HEAD","go test -run TestSeededDemo ./%s (without change): pass"%pkg,"git apply patch.diff","go build ./data/... ./models/... ./util/... ./sim/... ./io/json/...: ok","go test ./data/... ./util/... ./io/json/... (existing suite): pass","go test -run TestSeededDemo ./%s (with change): FAIL"%pkg],
 "needs_to_manifest":"see notes.txt","detected_by":None},open(d+'/meta.json','w'),indent=1)
PY
  echo "CONFIRMED -> $d"
else
  echo "NOT CONFIRMED"; for f in build tests demo_with demo_without; do echo "-- $f"; tail -n 5 "$wt/$f.txt"; done
fi
cd /; git -C /repo worktree remove --force "$wt/w"; rm -rf "$wt"
