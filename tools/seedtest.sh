#!/bin/bash
# seedtest.sh <seed-name> [property]: apply the seeded change to /repo, run the check of the
# property it breaks, undo the change. Prints DETECTED / MISSED.
name=$1
d=/verif/seeded/$name
prop=${2:-$(python3 -c "import json;print(json.load(open('$d/meta.json'))['breaks_property'])")}
if ! git -C /repo diff --quiet; then echo "/repo has uncommitted changes"; exit 2; fi
git -C /repo apply $d/patch.diff || { echo "patch does not apply"; exit 2; }
cp /verif/evidence/$prop.json /tmp/seedtest_evidence_$prop.json 2>/dev/null
/verif/bin/owvc check $prop --tier quick > /tmp/seedtest_$name.out 2>&1; rc=$?
git -C /repo checkout -- .
cp /tmp/seedtest_evidence_$prop.json /verif/evidence/$prop.json 2>/dev/null
grep -E "^VIOLATION|^owvc:|^KNOWN" /tmp/seedtest_$name.out | cut -c1-300
if [ $rc -eq 1 ] && grep -q "^VIOLATION property=$prop" /tmp/seedtest_$name.out; then echo "DETECTED $name by $prop"; else echo "MISSED $name by $prop (rc=$rc)"; fi
