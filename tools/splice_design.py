#!/usr/bin/env python3
"""Replaces section 0 of DESIGN.md (from '## 0.' up to '## 1.') by tools/design_section0.md."""
d=open('/verif/DESIGN.md').read()
s0=open('/verif/tools/design_section0.md').read().rstrip('\n')+'\n\n'
i=d.index('## 0. '); j=d.index('## 1. ')
open('/verif/DESIGN.md','w').write(d[:i]+s0+d[j:])
print('spliced', len(s0), 'bytes')
