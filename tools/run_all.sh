#!/bin/bash
# Runs the quick (default) or thorough command of every check in MANIFEST.json, one after the
# other, and prints one line per property. usage: tools/run_all.sh [quick|thorough]
tier=${1:-quick}
cd /verif
rc_all=0
for id in $(jq -r '.checks[].property_id' MANIFEST.json); do
  cmd=$(jq -r --arg p "$id" --arg t "${tier}_cmd" '.checks[]|select(.property_id==$p)|.[$t]' MANIFEST.json)
  s=$(date +%s); out=$($cmd 2>&1); rc=$?; e=$(date +%s)
  echo "$id rc=$rc $((e-s))s $(echo "$out" | grep -c '^VIOLATION') violations, $(echo "$out" | grep -c '^KNOWN-FINDING') known findings | $(echo "$out" | tail -1 | cut -c1-160)"
  [ $rc -ne 0 ] && { rc_all=1; echo "$out" | grep '^VIOLATION' | head -5; }
done
exit $rc_all
