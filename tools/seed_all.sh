#!/bin/bash
# Runs every stored seeded change against the check of its property and records
# the result in seeded/<name>/meta.json (detected_by) and seeded/RESULTS.md.
# /repo must be clean; each change is applied with git apply and undone with git checkout.
cd /verif
if [ -n "$(git -C /repo status --porcelain)" ]; then echo "/repo is not clean"; exit 2; fi
out=seeded/RESULTS.md
echo "| seeded change | property | result | failed obligations (first three) |" > $out
echo "|---|---|---|---|" >> $out
for d in /verif/seeded/*/; do
  n=$(basename $d); p=$(jq -r .breaks_property $d/meta.json)
  if ! git -C /repo apply --check $d/patch.diff 2>/dev/null; then
    echo "| $n | $p | STALE (patch no longer applies) | |" >> $out; continue
  fi
  if ! jq -e --arg p "$p" '.checks[]|select(.property_id==$p)' MANIFEST.json >/dev/null; then
    echo "| $n | $p | no check claimed for $p | |" >> $out; continue
  fi
  cp evidence/$p.json /tmp/ev_$p.json 2>/dev/null
  git -C /repo apply $d/patch.diff
  res=$(./bin/owvc check $p 2>&1); rc=$?
  git -C /repo checkout -- . ; git -C /repo clean -fdq
  cp /tmp/ev_$p.json evidence/$p.json 2>/dev/null; rm -f /tmp/ev_$p.json
  obls=$(echo "$res" | grep '^VIOLATION' | sed 's/.*replay=[^ ]*\/\([^ /]*\)\.json.*/\1/' | head -3 | tr '\n' ' ')
  if [ $rc -eq 1 ] && [ -n "$obls" ]; then r=DETECTED; else r="MISSED (rc=$rc)"; fi
  echo "| $n | $p | $r | $obls |" >> $out
  python3 - "$d/meta.json" "$r" "$obls" "$p" <<PY
import json,sys
p,r,o,prop=sys.argv[1:5]
d=json.load(open(p)); d['detected_by']=(prop+': '+o.strip()) if r=='DETECTED' else None; d['last_result']=r
json.dump(d,open(p,'w'),indent=1)
PY
done
cat $out
