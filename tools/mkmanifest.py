#!/usr/bin/env python3
"""Regenerates /verif/MANIFEST.json from the table below (kept by hand)."""
import json, sys

BASE = "cd /repo && go test -mod=mod -json -vet=off -count=1 -timeout 25m ./..."

# id -> (level category, level text, level note, technique, design ref)
CLAIMED = json.load(open('/verif/tools/claims.json'))
NOT_APPLICABLE = json.load(open('/verif/tools/not_applicable.json'))

checks = []
for pid in sorted(CLAIMED):
    c = CLAIMED[pid]
    checks.append({
        "property_id": pid,
        "quick_cmd": f"/verif/bin/owvc check {pid} --tier quick",
        "thorough_cmd": f"/verif/bin/owvc check {pid} --tier thorough",
        "evidence_file": f"/verif/evidence/{pid}.json",
        "replay_cmd_template": "/verif/bin/owvc replay {path}",
        "engine": "owvc",
        "level_claimed": {"category": c["category"], "text": c["text"], "design_ref": c.get("design_ref", "DESIGN.md §5 " + pid)},
        "level_note": c["note"],
        "technique": c["technique"],
    })

m = {
    "version": 1,
    "setup_cmd": "cd /verif/owvc && GOFLAGS=-mod=mod GOPROXY=off GOSUMDB=off GOTOOLCHAIN=local go build -o /verif/bin/owvc ./cmd/owvc",
    "hooks": {
        "guard": "verif",
        "enable": "go build tag `verif` (-tags verif): the hook files are the comment-only contract files <pkg>/verif_contracts*.go (no declarations; read by owvc) and one harness file models/climate/verif_harness.go (a function that calls calcDewPoint twice, for the relational clause of C20); without the tag none of them is compiled",
        "baseline_off_cmd": BASE,
        "source_commits": __import__('subprocess').check_output(['git','-C','/repo','log','--format=%h','--reverse','--','*verif_contracts*.go','*verif_harness.go']).decode().split(),
        "add_only": True,
    },
    "engines": [{
        "name": "owvc",
        "path": "/verif/owvc",
        "serves_properties": sorted(CLAIMED),
        "kind_free_text": "contract-based deductive verifier for Go written for this task: weakest-precondition style VC generation over go/ssa of /repo's current source, contracts in comment-only //@ files, obligations discharged by z3 4.8.12 / z3 5.1.0 / cvc5 1.0.3 (raced), counterexamples replayed on the real code through go test -overlay",
    }],
    "checks": checks,
    "not_applicable": [{"property_id": k, "reason": v} for k, v in sorted(NOT_APPLICABLE.items())],
    "notes": "See DESIGN.md. Known findings: /verif/known_findings.json. Expected obligation counts: /verif/expected_obligations.json.",
}
json.dump(m, open('/verif/MANIFEST.json', 'w'), indent=1)
print("wrote MANIFEST.json with", len(checks), "checks,", len(NOT_APPLICABLE), "not applicable")
import jsonschema
jsonschema.validate(m, json.load(open('/root/.vp/MANIFEST.schema.json')))
ids = set(CLAIMED) | set(NOT_APPLICABLE)
want = {json.loads(l)['id'] for l in open('/verif/properties.jsonl')}
assert ids == want, (want - ids, ids - want)
assert not (set(CLAIMED) & set(NOT_APPLICABLE))
