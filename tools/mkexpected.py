#!/usr/bin/env python3
"""Writes /verif/expected_obligations.json: per claimed property 90% of the number of
obligations of the last clean run (from the evidence files). A check that generates
fewer obligations than this reports a violation (vacuity guard: a contract clause or a
function under contract vanished)."""
import json, glob, os
out = {}
for f in sorted(glob.glob('/verif/evidence/C*.json')):
    d = json.load(open(f))
    n = d['coverage']['obligations'] + d['coverage'].get('known_findings', 0)
    out[os.path.basename(f)[:-5]] = int(n * 0.9)
json.dump(out, open('/verif/expected_obligations.json', 'w'), indent=1, sort_keys=True)
print(out)
