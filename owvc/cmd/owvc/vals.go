package main

// Symbolic values and states of the VC generator.

import (
	"fmt"
	"go/types"
	"sort"
	"strings"

	"golang.org/x/tools/go/ssa"
)

type Val interface{}

// scalars are T

type SliceV struct {
	ID, Off, Len T
	Elem         Sort // "" when the element type is not a scalar
	ElemT        types.Type
}

type StructPtr struct {
	Ref T
	Key string // type key of the pointed-to struct
	Typ *types.Struct
	Nm  types.Type
}

type ArrPtr struct { // pointer to [N]T
	ID   T
	Elem Sort
	N    int64
}

type ElemPtr struct {
	ID, Idx T
	Elem    Sort
}

type CellPtr struct { // local Alloc of a non-struct, non-array variable
	Key string
	Typ types.Type
}

type FieldPtr struct {
	Ref   T
	Key   string // struct type key
	Field string
	Typ   types.Type
}

type IfaceV struct {
	Ref  T
	Conc Val // statically known concrete value (may be nil)
	Typ  types.Type
}

type ErrV struct{ Nil T }

type FuncV struct {
	Fn   *ssa.Function
	Free []Val
	Sym  string // uninterpreted symbol when Fn == nil
	Sig  *types.Signature
	Nil  bool
}

type TupleV []Val

// ConstArr: a package-level array initialised by a constant literal and never
// written anywhere in the module.
type ConstArr struct {
	Elems []T
	Term  T
	Name  string
}

type ConstElemPtr struct {
	Arr ConstArr
	Idx T
}

type OpaqueV struct{ Desc string }

type MapV struct{ Entries map[string]Val } // constant-keyed maps only

// State is the symbolic store at a program point.
type State struct {
	reach T
	heaps map[string]T
	cells map[string]Val
	alloc T
}

func (s *State) clone() *State {
	n := &State{reach: s.reach, heaps: make(map[string]T, len(s.heaps)), cells: make(map[string]Val, len(s.cells)), alloc: s.alloc}
	for k, v := range s.heaps {
		n.heaps[k] = v
	}
	for k, v := range s.cells {
		n.cells[k] = v
	}
	return n
}

func typeKey(t types.Type) string {
	if p, ok := t.(*types.Pointer); ok {
		t = p.Elem()
	}
	if n, ok := t.(*types.Named); ok {
		if n.Obj().Pkg() != nil {
			return n.Obj().Pkg().Name() + "." + n.Obj().Name()
		}
		return n.Obj().Name()
	}
	return strings.ReplaceAll(t.String(), " ", "")
}

func sortOfBasic(t types.Type) (Sort, bool) {
	b, ok := t.Underlying().(*types.Basic)
	if !ok {
		return "", false
	}
	switch {
	case b.Info()&types.IsInteger != 0:
		return SInt, true
	case b.Info()&types.IsFloat != 0:
		return SReal, true
	case b.Info()&types.IsBoolean != 0:
		return SBool, true
	case b.Info()&types.IsString != 0:
		return SInt, true
	}
	if b.Kind() == types.UntypedNil {
		return SInt, true
	}
	return "", false
}

func isUnsigned(t types.Type) bool {
	b, ok := t.Underlying().(*types.Basic)
	return ok && b.Info()&types.IsUnsigned != 0
}

func isNDIface(t types.Type) bool {
	n, ok := t.(*types.Named)
	if !ok {
		return false
	}
	if _, ok := n.Underlying().(*types.Interface); !ok {
		return false
	}
	nm := n.Obj().Name()
	return n.Obj().Pkg() != nil && n.Obj().Pkg().Name() == "data" && strings.HasPrefix(nm, "ND")
}

// ndElemSort gives the element sort of an ND-family interface (by name).
func ndElemSort(t types.Type) Sort {
	n := t.(*types.Named)
	nm := n.Obj().Name()
	if strings.Contains(nm, "Float") || strings.HasSuffix(nm, "ArrayType") {
		if strings.HasSuffix(nm, "ArrayType") {
			return SReal // template type generic.Number: treated as a real
		}
		return SReal
	}
	return SInt
}

func isErrorType(t types.Type) bool {
	n, ok := t.(*types.Named)
	return ok && n.Obj().Pkg() == nil && n.Obj().Name() == "error"
}

// mergeVals builds ite(c, a, b) component-wise.
func mergeVals(c T, a, b Val) Val {
	if a == nil {
		return b
	}
	if b == nil {
		return a
	}
	switch x := a.(type) {
	case T:
		y, ok := b.(T)
		if !ok {
			panic(vcErr("merge of scalar with %T", b))
		}
		return ite(c, x, y)
	case SliceV:
		y := b.(SliceV)
		return SliceV{ite(c, x.ID, y.ID), ite(c, x.Off, y.Off), ite(c, x.Len, y.Len), x.Elem, x.ElemT}
	case StructPtr:
		y := b.(StructPtr)
		return StructPtr{ite(c, x.Ref, y.Ref), x.Key, x.Typ, x.Nm}
	case IfaceV:
		y := b.(IfaceV)
		r := IfaceV{Ref: ite(c, x.Ref, y.Ref), Typ: x.Typ}
		if x.Ref.S == y.Ref.S {
			r.Conc = x.Conc
		}
		return r
	case ErrV:
		y := b.(ErrV)
		return ErrV{ite(c, x.Nil, y.Nil)}
	case TupleV:
		y := b.(TupleV)
		r := make(TupleV, len(x))
		for i := range x {
			r[i] = mergeVals(c, x[i], y[i])
		}
		return r
	case FuncV:
		y := b.(FuncV)
		if x.Fn == y.Fn && x.Sym == y.Sym {
			return x
		}
		panic(vcErr("merge of different function values"))
	case OpaqueV:
		return x
	case ArrPtr:
		y := b.(ArrPtr)
		return ArrPtr{ite(c, x.ID, y.ID), x.Elem, x.N}
	case ElemPtr:
		y := b.(ElemPtr)
		return ElemPtr{ite(c, x.ID, y.ID), ite(c, x.Idx, y.Idx), x.Elem}
	case CellPtr:
		y := b.(CellPtr)
		if x.Key == y.Key {
			return x
		}
		panic(vcErr("merge of different cell pointers"))
	case MapV:
		return x
	}
	panic(vcErr("mergeVals: unsupported %T", a))
}

func valEq(a, b Val) bool {
	return fmt.Sprintf("%v", a) == fmt.Sprintf("%v", b)
}

type vcError struct{ msg string }

func (e vcError) Error() string { return e.msg }
func vcErr(format string, args ...interface{}) vcError {
	return vcError{fmt.Sprintf(format, args...)}
}

func sortedKeys[V any](m map[string]V) []string {
	ks := make([]string, 0, len(m))
	for k := range m {
		ks = append(ks, k)
	}
	sort.Strings(ks)
	return ks
}
