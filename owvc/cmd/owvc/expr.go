package main

// Evaluation of contract expressions (Go expression syntax) to SMT terms.

import (
	"fmt"
	"go/ast"
	"go/token"
	"go/types"
	"math/big"
	"strconv"
	"strings"

	"golang.org/x/tools/go/ssa"
)

// SeqV is a logical sequence: elements Arr[Off+k], k < Len.
type SeqV struct {
	Arr, Off, Len T
}

type Env struct {
	c        *Ctx
	fr       *Frame
	blk      *ssa.BasicBlock
	st       *State
	old      *State
	names    map[string]Val
	phis     map[*ssa.Phi]Val
	pre      *State
	preBlk   *ssa.BasicBlock // block at which pre() resolves names (assert-at clauses)
	atIdx    int             // assert-at clauses: only bindings before this instruction index of blk count
	postPhis map[*ssa.Phi]Val
	atLatch  bool
	oldNames map[string]Val
	bound    map[string]Val
	namesFirst bool // postconditions: parameters and results take precedence over locals
}

func (e *Env) with(name string, v Val) *Env {
	n := *e
	n.bound = copyMap(e.bound)
	n.bound[name] = v
	return &n
}

// envAt builds the environment for clauses evaluated at (the head of) block b.
func (fr *Frame) envAt(b *ssa.BasicBlock, st *State, phis map[*ssa.Phi]Val) *Env {
	return &Env{c: fr.c, fr: fr, blk: b, st: st, old: fr.old, names: fr.env0, phis: phis, oldNames: fr.env0}
}

func (c *Ctx) evalBool(env *Env, e ast.Expr) T {
	v := c.eval(env, e)
	t, ok := v.(T)
	if !ok || t.K != SBool {
		panic(vcErr("contract expression %s is not Boolean (%T)", exprString(e), v))
	}
	return t
}

func exprString(e ast.Expr) string {
	return types.ExprString(e)
}

func (env *Env) lookup(name string) (Val, bool) {
	if v, ok := env.bound[name]; ok {
		return v, true
	}
	if env.namesFirst {
		if v, ok := env.names[name]; ok {
			return v, true
		}
	}
	if v, ok := env.lookupLocal(name); ok {
		return v, true
	}
	v, ok := env.names[name]
	return v, ok
}

func (env *Env) lookupLocal(name string) (Val, bool) {
	fr := env.fr
	if fr == nil || env.blk == nil {
		return nil, false
	}
	cands := fr.names[name]
	if len(cands) == 0 && name == "rangeindex" {
		// a contract written for "for i := range s" applied to the counted form
		// "for i := 0; i < n; i++": the last completed index is i - 1
		for li := fr.inLoop[env.blk]; li != nil; li = li.parent {
			var found *ssa.Phi
			n := 0
			for _, in := range li.header.Instrs {
				phi, ok := in.(*ssa.Phi)
				if !ok {
					break
				}
				if b, isInt := phi.Type().Underlying().(*types.Basic); !isInt || b.Kind() != types.Int {
					continue
				}
				fromZero, stepOne := false, false
				for k, e := range phi.Edges {
					pred := li.header.Preds[k]
					if li.blocks[pred] {
						if bo, ok := e.(*ssa.BinOp); ok && bo.Op == token.ADD && bo.X == ssa.Value(phi) {
							if c1, ok := bo.Y.(*ssa.Const); ok && c1.Value != nil && c1.Value.ExactString() == "1" {
								stepOne = true
							}
						}
					} else if c0, ok := e.(*ssa.Const); ok && c0.Value != nil && c0.Value.ExactString() == "0" {
						fromZero = true
					}
				}
				if fromZero && stepOne {
					found = phi
					n++
				}
			}
			if n == 1 {
				var pv Val
				if v, ok := env.phis[found]; ok {
					pv = v
				} else if v, ok := fr.vals[found]; ok {
					pv = v
				}
				if t, ok := pv.(T); ok {
					return app(SInt, "-", t, intLit(1)), true
				}
			}
			break // only the innermost loop
		}
	}
	if len(cands) == 0 {
		return nil, false
	}
	// header phis of the enclosing loops take precedence (not for assertions in the
	// middle of a loop body: there the latest binding before the anchor counts)
	for li := fr.inLoop[env.blk]; li != nil && env.atIdx == 0; li = li.parent {
		for _, cb := range cands {
			if phi, ok := cb.val.(*ssa.Phi); ok && cb.isPhi && phi.Block() == li.header {
				if v, ok := env.phis[phi]; ok {
					return v, true
				}
				if v, ok := fr.vals[phi]; ok {
					return v, true
				}
			}
		}
	}
	// the key variable of a range loop, named at the loop head (a contract written for
	// the counted form "for i := 0; i < n; i++"): there it is rangeindex + 1
	for li := fr.inLoop[env.blk]; li != nil; li = li.parent {
		for _, cb := range cands {
			bo, ok := cb.val.(*ssa.BinOp)
			if !ok || bo.Op != token.ADD || !li.blocks[cb.blk] {
				continue
			}
			phi, ok := bo.X.(*ssa.Phi)
			k, isC := bo.Y.(*ssa.Const)
			if !ok || !isC || phi.Block() != li.header || phi.Comment != "rangeindex" || k.Value == nil || k.Value.ExactString() != "1" {
				continue
			}
			if env.blk != li.header && !env.atLatch {
				continue // inside the body the ordinary binding applies
			}
			var pv Val
			if v, ok := env.phis[phi]; ok {
				pv = v
			} else if v, ok := fr.vals[phi]; ok {
				pv = v
			}
			if t, ok := pv.(T); ok {
				return app(SInt, "+", t, intLit(1)), true
			}
		}
	}
	// otherwise the deepest dominating binding
	var best *nameBinding
	for k := range cands {
		cb := &cands[k]
		if cb.blk == env.blk {
			if !cb.isPhi && !env.atLatch && cb.idx >= 0 {
				continue
			}
			if env.atIdx != 0 && cb.idx >= env.atIdx && !cb.isPhi {
				continue
			}
		} else if !cb.blk.Dominates(env.blk) {
			continue
		}
		if _, ok := fr.vals[cb.val]; !ok {
			switch cb.val.(type) {
			case *ssa.Const, *ssa.Function:
			default:
				continue
			}
		}
		if best == nil || (best.blk != cb.blk && best.blk.Dominates(cb.blk)) || (best.blk == cb.blk && cb.idx > best.idx) {
			best = cb
		}
	}
	if best == nil {
		return nil, false
	}
	v := fr.get(best.val)
	if cp, ok := v.(CellPtr); ok {
		cv, ok := env.st.cells[cp.Key]
		return cv, ok
	}
	return v, true
}

func (c *Ctx) eval(env *Env, e ast.Expr) Val {
	switch x := e.(type) {
	case *ast.ParenExpr:
		return c.eval(env, x.X)
	case *ast.BasicLit:
		switch x.Kind {
		case token.INT:
			n, ok := new(big.Int).SetString(x.Value, 0)
			if !ok {
				panic(vcErr("bad integer literal %s", x.Value))
			}
			return bigIntLit(n)
		case token.FLOAT:
			r, ok := new(big.Rat).SetString(x.Value)
			if !ok {
				panic(vcErr("bad float literal %s", x.Value))
			}
			return ratLit(r)
		}
		panic(vcErr("literal %s unsupported", x.Value))
	case *ast.Ident:
		switch x.Name {
		case "true":
			return tTrue
		case "false":
			return tFalse
		case "nil":
			return IfaceV{Ref: intLit(0)}
		case "nilints":
			// the nil []int
			return SliceV{intLit(0), intLit(0), intLit(0), SInt, types.Typ[types.Int]}
		}
		if v, ok := env.lookup(x.Name); ok {
			return v
		}
		// a package-level constant of the package under verification
		if c.top != nil && c.top.Package() != nil {
			if k, ok := c.top.Package().Pkg.Scope().Lookup(x.Name).(*types.Const); ok {
				return c.constVal(ssa.NewConst(k.Val(), k.Type()))
			}
		}
		panic(vcErr("contract name %q cannot be resolved in %s", x.Name, fnName(env)))
	case *ast.UnaryExpr:
		v := c.eval(env, x.X).(T)
		switch x.Op {
		case token.NOT:
			return not(v)
		case token.SUB:
			return app(v.K, "-", v)
		case token.ADD:
			return v
		}
	case *ast.BinaryExpr:
		l := c.eval(env, x.X)
		r := c.eval(env, x.Y)
		lt, ok1 := l.(T)
		rt, ok2 := r.(T)
		if !ok1 || !ok2 {
			// reference comparisons
			if x.Op == token.EQL || x.Op == token.NEQ {
				t := c.refEq(l, r)
				if x.Op == token.NEQ {
					return not(t)
				}
				return t
			}
			panic(vcErr("operator %s on %T and %T in %s", x.Op, l, r, exprString(e)))
		}
		if x.Op == token.LAND {
			return and(lt, rt)
		}
		if x.Op == token.LOR {
			return or(lt, rt)
		}
		return c.arith(nil, x.Op, lt, rt, token.NoPos, false)
	case *ast.IndexExpr:
		b := c.eval(env, x.X)
		i := c.eval(env, x.Index).(T)
		switch s := b.(type) {
		case SliceV:
			if s.Elem == "" && s.ElemT != nil {
				if su, ok := s.ElemT.Underlying().(*types.Struct); ok {
					return StructPtr{c.sliceElemObj(env.st, s, i), typeKey(s.ElemT), su, s.ElemT}
				}
				if _, ok := s.ElemT.Underlying().(*types.Slice); ok && env.fr != nil {
					return env.fr.loadLoc(env.st, "F.sliceof."+sanitize(s.ElemT.String()), c.sliceElemObj(env.st, s, i), s.ElemT)
				}
			}
			h := c.heap(env.st, "H."+string(s.Elem), heapSort(s.Elem))
			return c.sel(c.sel(h, s.ID), addInt(s.Off, i))
		case SeqV:
			return c.sel(s.Arr, addInt(s.Off, i))
		case ArrPtr:
			h := c.heap(env.st, "H."+string(s.Elem), heapSort(s.Elem))
			return c.sel(c.sel(h, s.ID), i)
		case T:
			if s.K.isArr() {
				return c.sel(s, i)
			}
		}
		panic(vcErr("index of %T in %s", b, exprString(e)))
	case *ast.SelectorExpr:
		return c.evalSelector(env, x)
	case *ast.CallExpr:
		return c.evalCall(env, x)
	}
	panic(vcErr("contract expression %s (%T) unsupported", exprString(e), e))
}

func fnName(env *Env) string {
	if env.fr != nil {
		return env.fr.fn.String()
	}
	return "?"
}

func (c *Ctx) refEq(l, r Val) T {
	// comparison with the literal nil
	isNil := func(v Val) bool {
		iv, ok := v.(IfaceV)
		return ok && iv.Ref.S == "0" && iv.Typ == nil && iv.Conc == nil
	}
	if isNil(r) {
		l, r = r, l
	}
	if isNil(l) {
		switch b := r.(type) {
		case SliceV:
			return eq(b.ID, intLit(0))
		case StructPtr:
			return eq(b.Ref, intLit(0))
		case IfaceV:
			return eq(b.Ref, intLit(0))
		case ErrV:
			return b.Nil
		}
	}
	switch a := l.(type) {
	case IfaceV:
		if b, ok := r.(IfaceV); ok {
			return eq(a.Ref, b.Ref)
		}
	case StructPtr:
		if b, ok := r.(StructPtr); ok {
			return eq(a.Ref, b.Ref)
		}
	case SliceV:
		if b, ok := r.(SliceV); ok {
			return and(eq(a.ID, b.ID), eq(a.Off, b.Off), eq(a.Len, b.Len))
		}
	case ArrPtr:
		if b, ok := r.(ArrPtr); ok {
			return eq(a.ID, b.ID)
		}
	case ErrV:
		if b, ok := r.(ErrV); ok {
			return eq(a.Nil, b.Nil)
		}
	}
	panic(vcErr("cannot compare %T with %T", l, r))
}

func (c *Ctx) ndCells(st *State, x IfaceV) T {
	k := SReal
	if x.Typ != nil && isNDIface(x.Typ) {
		k = ndElemSort(x.Typ)
	}
	return c.sel(c.heap(st, "ND.cells."+string(k), heapSort(k)), x.Ref)
}

func (c *Ctx) ndLen(x IfaceV) T {
	c.declareFun("nd_len", []Sort{SInt}, SInt)
	t := app(SInt, "nd_len", x.Ref)
	if c.inQuant == 0 && !c.declared["ndlen>=0:"+x.Ref.S] {
		c.declared["ndlen>=0:"+x.Ref.S] = true
		c.emit(fmt.Sprintf("(assert (>= %s 0))", t.S))
	}
	return t
}

func (c *Ctx) evalSelector(env *Env, x *ast.SelectorExpr) Val {
	if id, ok := x.X.(*ast.Ident); ok && id.Name == "ghost" {
		// ghost.NAME: a global ghost variable (integer), part of the state
		return c.ghostCell(env.st, x.Sel.Name)
	}
	b := c.eval(env, x.X)
	switch v := b.(type) {
	case IfaceV:
		switch x.Sel.Name {
		case "len":
			return c.ndLen(v)
		case "cells":
			return c.ndCells(env.st, v)
		case "ref":
			return v.Ref
		case "rank":
			c.declareFun("nd_rank", []Sort{SInt}, SInt)
			return app(SInt, "nd_rank", v.Ref)
		case "root":
			return c.ndRoot(v)
		case "shape":
			// the extents of x as a logical sequence (general-rank interface model)
			// the extents of x (general-rank interface model): the slice that
			// Shape() returns, an object that exists at entry (ghost id g_shapeid)
			c.declareFun("ghost.g_shapeid", []Sort{SInt}, SInt)
			c.declareFun("nd_rank", []Sort{SInt}, SInt)
			id := app(SInt, "ghost.g_shapeid", v.Ref)
			if c.alloc0.S != "" && c.inQuant == 0 && !c.declared["shapeid-old:"+id.S] {
				c.declared["shapeid-old:"+id.S] = true
				c.emit(fmt.Sprintf("(assert (and (< 0 %s) (< %s %s) (>= (nd_rank %s) 0)))", id.S, id.S, c.alloc0.S, v.Ref.S))
			}
			return SliceV{id, intLit(0), app(SInt, "nd_rank", v.Ref), SInt, types.Typ[types.Int]}
		}
		if strings.HasPrefix(x.Sel.Name, "g_") {
			// ghost attribute of an object behind an interface: an uninterpreted
			// function of its identity (used by interface contracts)
			c.declareFun("ghost."+x.Sel.Name, []Sort{SInt}, SInt)
			t := app(SInt, "ghost."+x.Sel.Name, v.Ref)
			if x.Sel.Name == "g_unrollid" {
				c.unrollIDExists(t)
			}
			return t
		}
	case StructPtr:
		// field (possibly promoted through an embedded struct)
		key, f := findField(v.Key, v.Typ, x.Sel.Name)
		if f != nil {
			return env.fr.loadLoc(env.st, "F."+key+"."+f.Name(), v.Ref, f.Type())
		}
		if x.Sel.Name == "ref" {
			return v.Ref
		}
	case ArrPtr:
		switch x.Sel.Name {
		case "id":
			return v.ID
		case "buflen":
			c.declareFun("cbuf_len", []Sort{SInt}, SInt)
			return app(SInt, "cbuf_len", v.ID)
		}
	case SliceV:
		switch x.Sel.Name {
		case "id":
			return v.ID
		case "off":
			return v.Off
		case "len":
			return v.Len
		}
	case ErrV:
		if x.Sel.Name == "isnil" {
			return v.Nil
		}
	}
	panic(vcErr("selector %s on %T unsupported", exprString(x), b))
}

func findField(key string, s *types.Struct, name string) (string, *types.Var) {
	for i := 0; i < s.NumFields(); i++ {
		f := s.Field(i)
		if f.Name() == name && !f.Embedded() {
			return key, f
		}
	}
	for i := 0; i < s.NumFields(); i++ {
		f := s.Field(i)
		if f.Embedded() {
			if es, ok := f.Type().Underlying().(*types.Struct); ok {
				if k, ff := findField(typeKey(f.Type()), es, name); ff != nil {
					return k, ff
				}
			}
		}
	}
	return "", nil
}

func (c *Ctx) evalCall(env *Env, x *ast.CallExpr) Val {
	// method-like: recv.at(k)
	if se, ok := x.Fun.(*ast.SelectorExpr); ok {
		recv := c.eval(env, se.X)
		switch r := recv.(type) {
		case IfaceV:
			arg := func(i int) T {
				if i < len(x.Args) {
					return c.eval(env, x.Args[i]).(T)
				}
				return intLit(0)
			}
			switch se.Sel.Name {
			case "at":
				return c.sel(c.ndCells(env.st, r), c.eval(env, x.Args[0]).(T))
			case "dim":
				return c.ndDim(r, arg(0))
			case "idx":
				return c.ndIdx(r, arg(0), arg(1), arg(2))
			case "elem":
				return c.locRead(env.st, r, arg(0), arg(1), arg(2))
			}
		}
		panic(vcErr("method %s in contract unsupported on %T", se.Sel.Name, recv))
	}
	id, ok := x.Fun.(*ast.Ident)
	if !ok {
		panic(vcErr("call %s unsupported in contract", exprString(x)))
	}
	args := x.Args
	switch id.Name {
	case "forall", "exists":
		// forall(i, lo, hi, P)
		if len(args) != 4 {
			panic(vcErr("%s needs (var, lo, hi, body)", id.Name))
		}
		v, ok := args[0].(*ast.Ident)
		if !ok {
			panic(vcErr("%s: first argument must be a name", id.Name))
		}
		c.nsym++
		bv := T{fmt.Sprintf("q_%s_%d", v.Name, c.nsym), SInt}
		lo := c.eval(env, args[1]).(T)
		hi := c.eval(env, args[2]).(T)
		c.inQuant++
		body := c.evalBool(env.with(v.Name, bv), args[3])
		c.inQuant--
		rng := and(app(SBool, "<=", lo, bv), app(SBool, "<", bv, hi))
		if id.Name == "forall" {
			return T{fmt.Sprintf("(forall ((%s Int)) %s)", bv.S, implies(rng, body).S), SBool}
		}
		return T{fmt.Sprintf("(exists ((%s Int)) %s)", bv.S, and(rng, body).S), SBool}
	case "foralli":
		v := args[0].(*ast.Ident)
		c.nsym++
		bv := T{fmt.Sprintf("q_%s_%d", v.Name, c.nsym), SInt}
		c.inQuant++
		body := c.evalBool(env.with(v.Name, bv), args[1])
		c.inQuant--
		return T{fmt.Sprintf("(forall ((%s Int)) %s)", bv.S, body.S), SBool}
	case "forallai", "forallar":
		v := args[0].(*ast.Ident)
		c.nsym++
		k := SInt
		if id.Name == "forallar" {
			k = SReal
		}
		a := T{fmt.Sprintf("q_%s_%d", v.Name, c.nsym), arrSort(k)}
		l := T{fmt.Sprintf("q_%s_len_%d", v.Name, c.nsym), SInt}
		c.inQuant++
		body := c.evalBool(env.with(v.Name, SeqV{a, intLit(0), l}), args[1])
		c.inQuant--
		return T{fmt.Sprintf("(forall ((%s %s) (%s Int)) %s)", a.S, a.K, l.S, body.S), SBool}
	case "forallr":
		// forallr(x, P): universally quantified real
		v := args[0].(*ast.Ident)
		c.nsym++
		bv := T{fmt.Sprintf("q_%s_%d", v.Name, c.nsym), SReal}
		c.inQuant++
		body := c.evalBool(env.with(v.Name, bv), args[1])
		c.inQuant--
		return T{fmt.Sprintf("(forall ((%s Real)) %s)", bv.S, body.S), SBool}
	case "as":
		// as(x, structName): the concrete struct behind an interface value
		v := c.eval(env, args[0])
		tn, ok := args[1].(*ast.Ident)
		if !ok {
			panic(vcErr("as: second argument must be a struct type name"))
		}
		var ref T
		switch x := v.(type) {
		case IfaceV:
			ref = x.Ref
		case StructPtr:
			ref = x.Ref
		default:
			panic(vcErr("as: %T is not a reference", v))
		}
		var pkg *types.Package
		if c.top != nil && c.top.Package() != nil {
			pkg = c.top.Package().Pkg
		}
		if pkg == nil {
			panic(vcErr("as: no package"))
		}
		obj := pkg.Scope().Lookup(tn.Name)
		if obj == nil {
			// a type of an imported package (e.g. data.ndfloat64 seen from cdata)
			for _, imp := range pkg.Imports() {
				if o := imp.Scope().Lookup(tn.Name); o != nil {
					obj = o
				}
			}
		}
		if obj == nil {
			panic(vcErr("as: unknown type %s", tn.Name))
		}
		st, ok := obj.Type().Underlying().(*types.Struct)
		if !ok {
			panic(vcErr("as: %s is not a struct", tn.Name))
		}
		return StructPtr{ref, typeKey(obj.Type()), st, obj.Type()}
	case "fresh":
		// fresh(x): the object x was allocated during the call (its id is at or
		// above the allocation counter of the pre-state)
		if env.old == nil {
			panic(vcErr("fresh() needs a pre-state"))
		}
		var id T
		switch v := c.eval(env, args[0]).(type) {
		case SliceV:
			id = v.ID
		case StructPtr:
			id = v.Ref
		case IfaceV:
			id = v.Ref
		case ArrPtr:
			id = v.ID
		default:
			panic(vcErr("fresh: not an object"))
		}
		return and(app(SBool, ">=", id, env.old.alloc), app(SBool, "<", id, env.st.alloc))
	case "injective":
		x, ok := c.eval(env, args[0]).(IfaceV)
		if !ok {
			panic(vcErr("injective: not an array"))
		}
		return c.rootInjective(x)
	case "ite":
		cnd := c.evalBool(env, args[0])
		return mergeVals(cnd, c.eval(env, args[1]), c.eval(env, args[2]))
	case "implies":
		return implies(c.evalBool(env, args[0]), c.evalBool(env, args[1]))
	case "iff":
		return eq(c.evalBool(env, args[0]), c.evalBool(env, args[1]))
	case "old":
		n := *env
		n.st = env.old
		n.names = env.oldNames
		n.blk = nil
		n.phis = nil
		if env.old == nil {
			panic(vcErr("old() is not available here"))
		}
		return c.eval(&n, args[0])
	case "pre":
		if env.pre == nil {
			panic(vcErr("pre() only in step clauses and in invariants of nested loops"))
		}
		n := *env
		n.st = env.pre
		n.atLatch = false
		if env.preBlk != nil {
			n.blk = env.preBlk
		} else if env.postPhis != nil {
			n.blk = env.fr.inLoop[env.blk].headerOf(env)
		} else if li := env.fr.inLoop[env.blk]; li != nil && li.parent != nil {
			// invariant of a nested loop: the head of the enclosing loop
			n.blk = li.parent.header
		}
		n.phis = nil
		return c.eval(&n, args[0])
	case "post":
		if env.postPhis == nil {
			panic(vcErr("post() only in step clauses"))
		}
		n := *env
		n.atLatch = false
		n.blk = env.fr.inLoop[env.blk].headerOf(env)
		n.phis = env.postPhis
		return c.eval(&n, args[0])
	case "len":
		switch s := c.eval(env, args[0]).(type) {
		case SliceV:
			return s.Len
		case SeqV:
			return s.Len
		case IfaceV:
			return c.ndLen(s)
		}
		panic(vcErr("len of %s", exprString(args[0])))
	case "real", "float64":
		return toReal(c.eval(env, args[0]).(T))
	case "int":
		t := c.eval(env, args[0]).(T)
		if t.K == SInt {
			return t
		}
		return ite(app(SBool, ">=", t, T{"0.0", SReal}), app(SInt, "to_int", t), app(SInt, "-", app(SInt, "to_int", app(SReal, "-", t))))
	case "min", "max":
		a := c.eval(env, args[0]).(T)
		b := c.eval(env, args[1]).(T)
		a, b = coerce2(a, b)
		if id.Name == "min" {
			return ite(app(SBool, "<=", a, b), a, b)
		}
		return ite(app(SBool, ">=", a, b), a, b)
	case "abs":
		a := c.eval(env, args[0]).(T)
		return ite(app(SBool, ">=", a, zeroOf(a.K)), a, app(a.K, "-", a))
	case "upd":
		a := c.eval(env, args[0]).(T)
		return c.sto(a, c.eval(env, args[1]).(T), c.eval(env, args[2]).(T))
	case "seq":
		// seq(slice or nd): the logical sequence of a slice / 1-D array
		return c.toSeq(env, c.eval(env, args[0]))
	case "pow", "exp", "tanh", "log", "log10", "sqrt", "floor", "ceil", "cos":
		var ts []T
		for _, a := range args {
			ts = append(ts, toReal(c.eval(env, a).(T)))
		}
		return c.mathApp(env.st, id.Name, ts)
	case "tdiv", "tmod":
		a := c.eval(env, args[0]).(T)
		b := c.eval(env, args[1]).(T)
		if id.Name == "tdiv" {
			return app(SInt, "gdiv", a, b)
		}
		return app(SInt, "gmod", a, b)
	case "div", "mod":
		a := c.eval(env, args[0]).(T)
		b := c.eval(env, args[1]).(T)
		return app(SInt, id.Name, a, b)
	}
	// function-valued name (parameter or local closure)
	if v, ok := env.lookup(id.Name); ok {
		if fv, ok := v.(FuncV); ok {
			var av []Val
			for _, a := range args {
				av = append(av, c.eval(env, a))
			}
			return c.applySpec(env, fv, av)
		}
	}
	if sp, ok := c.cs.Specs[id.Name]; ok {
		var av []Val
		for _, a := range args {
			av = append(av, c.eval(env, a))
		}
		return c.applySpecFunc(env, sp, av)
	}
	// a loop-free function of the package under verification, used as its own
	// specification (pure function of its arguments)
	if c.top != nil && c.top.Package() != nil {
		if fn := c.top.Package().Func(id.Name); fn != nil && len(fn.Blocks) > 0 && !hasLoops(fn) {
			var av []Val
			for i, a := range args {
				v := c.eval(env, a)
				if t, ok := v.(T); ok && i < len(fn.Params) {
					if k, ok2 := sortOfBasic(fn.Params[i].Type()); ok2 && k == SReal {
						v = toReal(t)
					}
				}
				av = append(av, v)
			}
			return c.applySpec(env, FuncV{Fn: fn, Sig: fn.Signature}, av)
		}
	}
	panic(vcErr("unknown function %s in contract", id.Name))
}

func (li *loopInfo) headerOf(env *Env) *ssa.BasicBlock {
	if li == nil {
		panic(vcErr("pre/post outside a loop"))
	}
	return li.header
}

func (c *Ctx) toSeq(env *Env, v Val) Val {
	switch s := v.(type) {
	case SeqV:
		return s
	case SliceV:
		h := c.heap(env.st, "H."+string(s.Elem), heapSort(s.Elem))
		return SeqV{c.sel(h, s.ID), s.Off, s.Len}
	case IfaceV:
		return SeqV{c.ndCells(env.st, s), intLit(0), c.ndLen(s)}
	}
	panic(vcErr("cannot view %T as a sequence", v))
}

func specSort(ty string) []Sort {
	switch ty {
	case "int":
		return []Sort{SInt}
	case "real", "float64":
		return []Sort{SReal}
	case "bool":
		return []Sort{SBool}
	case "[]int":
		return []Sort{arrSort(SInt), SInt}
	case "[]real", "[]float64":
		return []Sort{arrSort(SReal), SInt}
	}
	panic(vcErr("unknown spec type %q", ty))
}

// specMeasureParam: index of the int parameter that decreases by one in the
// recursive call (the recursion measure), or -1.
func specMeasureParam(sp *SpecFunc) int {
	res := -1
	ast.Inspect(sp.Body, func(n ast.Node) bool {
		ce, ok := n.(*ast.CallExpr)
		if !ok {
			return true
		}
		id, ok := ce.Fun.(*ast.Ident)
		if !ok || id.Name != sp.Name || len(ce.Args) != len(sp.Params) {
			return true
		}
		for j, a := range ce.Args {
			be, ok := a.(*ast.BinaryExpr)
			if !ok || be.Op != token.SUB {
				continue
			}
			x, ok1 := be.X.(*ast.Ident)
			y, ok2 := be.Y.(*ast.BasicLit)
			if ok1 && ok2 && x.Name == sp.Params[j][0] && y.Value == "1" && sp.Params[j][1] == "int" {
				res = j
			}
		}
		return true
	})
	return res
}

func specIsRecursive(sp *SpecFunc) bool {
	if sp.Body == nil {
		return false
	}
	rec := false
	ast.Inspect(sp.Body, func(n ast.Node) bool {
		if ce, ok := n.(*ast.CallExpr); ok {
			if id, ok := ce.Fun.(*ast.Ident); ok && id.Name == sp.Name {
				rec = true
			}
		}
		return true
	})
	return rec
}

func (c *Ctx) applySpecFunc(env *Env, sp *SpecFunc, args []Val) Val {
	if len(args) != len(sp.Params) {
		panic(vcErr("spec %s: %d arguments, want %d", sp.Name, len(args), len(sp.Params)))
	}
	// normalise arguments
	norm := make([]Val, len(args))
	for i, p := range sp.Params {
		switch p[1] {
		case "[]int", "[]real", "[]float64":
			norm[i] = c.toSeq(env, args[i])
		case "real", "float64":
			norm[i] = toReal(args[i].(T))
		default:
			norm[i] = args[i]
		}
	}
	if sp.Body != nil && !specIsRecursive(sp) && !sp.Opaque {
		// macro expansion
		n := &Env{c: c, st: env.st, old: env.old, names: map[string]Val{}}
		for i, p := range sp.Params {
			n.names[p[0]] = norm[i]
		}
		return c.eval(n, sp.Body)
	}
	// bounded unfolding: a recursive spec function applied to a small literal
	// measure (e.g. idot over an index vector of length 2) is expanded in place
	if j := specMeasureParam(sp); j >= 0 && !sp.Opaque {
		if t, ok := norm[j].(T); ok && isIntNumeral(t.S) && numeralVal(t.S) <= 6 && c.unfoldDepth < 8 {
			c.unfoldDepth++
			n := &Env{c: c, st: env.st, old: env.old, names: map[string]Val{}}
			for i, p := range sp.Params {
				n.names[p[0]] = norm[i]
			}
			r := c.eval(n, sp.Body)
			c.unfoldDepth--
			return r
		}
	}
	c.declareSpec(sp)
	var ts []T
	for _, a := range norm {
		switch v := a.(type) {
		case T:
			ts = append(ts, v)
		case SeqV:
			ts = append(ts, v.Arr, v.Off)
		default:
			panic(vcErr("spec %s: argument of kind %T", sp.Name, a))
		}
	}
	return app(specSort(sp.Ret)[0], "spec_"+sp.Name, ts...)
}

func (c *Ctx) declareSpec(sp *SpecFunc) {
	name := "spec_" + sp.Name
	if c.declared[name] {
		return
	}
	var sorts []Sort
	for _, p := range sp.Params {
		sorts = append(sorts, specSort(p[1])...)
	}
	ret := specSort(sp.Ret)[0]
	c.declareFun(name, sorts, ret)
	if sp.Body == nil {
		return
	}
	// unfolding axiom
	n := &Env{c: c, st: &State{heaps: map[string]T{}, cells: map[string]Val{}}, names: map[string]Val{}}
	var binders []string
	var argTerms []T
	for _, p := range sp.Params {
		ss := specSort(p[1])
		if len(ss) == 1 {
			v := T{"a_" + p[0], ss[0]}
			binders = append(binders, fmt.Sprintf("(%s %s)", v.S, ss[0]))
			argTerms = append(argTerms, v)
			n.names[p[0]] = v
		} else {
			a := T{"a_" + p[0], ss[0]}
			o := T{"o_" + p[0], SInt}
			binders = append(binders, fmt.Sprintf("(%s %s)", a.S, ss[0]), fmt.Sprintf("(%s Int)", o.S))
			argTerms = append(argTerms, a, o)
			n.names[p[0]] = SeqV{a, o, intLit(0)} // len() of a sequence parameter is not available in spec bodies
		}
	}
	c.inQuant++
	body := c.eval(n, sp.Body).(T)
	c.inQuant--
	lhs := app(ret, name, argTerms...)
	if ret == SReal {
		body = toReal(body)
	}
	c.emit(fmt.Sprintf("(assert (forall (%s) (! (= %s %s) :pattern (%s))))", strings.Join(binders, " "), lhs.S, body.S, lhs.S))
}

// applySpec applies a function value at specification level.
func (c *Ctx) applySpec(env *Env, fv FuncV, args []Val) Val {
	if fv.Fn == nil {
		return c.applyUF(fv, args)
	}
	if c.inQuant > 0 && !(len(fv.Fn.Blocks) == 1 && straightLinePure(fv.Fn)) {
		panic(vcErr("application of a closure under a quantifier is not supported (only single-block closures without memory access)"))
	}
	c.specMode++
	defer func() { c.specMode-- }()
	st := env.st.clone()
	res := c.inline(fv, args, st, token.NoPos)
	if len(res) == 1 {
		return res[0]
	}
	return TupleV(res)
}

func (c *Ctx) applyUF(fv FuncV, args []Val) Val {
	sig := fv.Sig
	var sorts []Sort
	var ts []T
	for i, a := range args {
		var t T
		var k Sort
		switch x := a.(type) {
		case T:
			t = x
			k, _ = sortOfBasic(sig.Params().At(i).Type())
			if k == SReal {
				t = toReal(t)
			}
		case IfaceV:
			// an array argument: identified by its reference (contents enter
			// through the function's own contract, not through the symbol)
			t, k = x.Ref, SInt
		default:
			panic(vcErr("uninterpreted function %s applied to %T", fv.Sym, a))
		}
		sorts = append(sorts, k)
		ts = append(ts, t)
	}
	n := sig.Results().Len()
	if n == 0 {
		panic(vcErr("uninterpreted function %s without results", fv.Sym))
	}
	var out TupleV
	for r := 0; r < n; r++ {
		rk, ok := sortOfBasic(sig.Results().At(r).Type())
		if !ok {
			panic(vcErr("uninterpreted function %s: result type", fv.Sym))
		}
		name := fv.Sym
		if n > 1 {
			name = fmt.Sprintf("%s_r%d", fv.Sym, r)
		}
		c.declareFun(name, sorts, rk)
		out = append(out, app(rk, name, ts...))
	}
	if n == 1 {
		return out[0]
	}
	return out
}

func atoi(s string) int {
	n, _ := strconv.Atoi(s)
	return n
}

// ghostCell returns the current value of the global ghost variable name.
func (c *Ctx) ghostCell(st *State, name string) T {
	key := "ghost." + name
	if v, ok := st.cells[key]; ok {
		return v.(T)
	}
	// the entry value: a constant with a fixed name, declared through the
	// registry that discovery passes roll back together with the emitted text
	c.declareFun("ghost0_"+name, nil, SInt)
	v := T{"ghost0_" + name, SInt}
	c.cellTypes[key] = types.Typ[types.Int]
	st.cells[key] = v
	return v
}

// straightLinePure: a single-block function whose instructions are arithmetic,
// conversions, reads of captured variables and a return (its inlined value is a
// term over its arguments, so it may be applied under a quantifier).
func straightLinePure(fn *ssa.Function) bool {
	for _, in := range fn.Blocks[0].Instrs {
		switch x := in.(type) {
		case *ssa.BinOp, *ssa.Convert, *ssa.ChangeType, *ssa.Return, *ssa.DebugRef:
		case *ssa.UnOp:
			if x.Op == token.MUL {
				if _, ok := x.X.(*ssa.FreeVar); !ok {
					return false
				}
			}
		default:
			return false
		}
	}
	return true
}

// unrollIDExists: the slice x.Unroll() returns is modelled as one object per array
// that exists at entry (the array's own storage, or a buffer set aside for the
// copy): it is never one of the objects the function under contract allocates.
func (c *Ctx) unrollIDExists(t T) {
	if c.alloc0.S != "" && c.inQuant == 0 && !c.declared["unrollid-old:"+t.S] {
		c.declared["unrollid-old:"+t.S] = true
		c.emit(fmt.Sprintf("(assert (and (< 0 %s) (< %s %s)))", t.S, t.S, c.alloc0.S))
	}
}
