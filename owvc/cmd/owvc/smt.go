package main

// SMT term construction and solver racing.

import (
	"runtime"
	"bytes"
	"context"
	"fmt"
	"math/big"
	"os"
	"os/exec"
	"path/filepath"
	"strings"
	"sync"
	"time"
)

type Sort string

const (
	SInt  Sort = "Int"
	SReal Sort = "Real"
	SBool Sort = "Bool"
)

func arrSort(elem Sort) Sort  { return Sort("(Array Int " + string(elem) + ")") }
func heapSort(elem Sort) Sort { return arrSort(arrSort(elem)) }
func (s Sort) elem() Sort {
	str := string(s)
	if strings.HasPrefix(str, "(Array Int ") {
		return Sort(str[len("(Array Int ") : len(str)-1])
	}
	panic("elem of non-array sort " + str)
}
func (s Sort) isArr() bool { return strings.HasPrefix(string(s), "(Array") }

// T is an SMT term with its sort.
type T struct {
	S string
	K Sort
}

func (t T) String() string { return t.S }

var (
	tTrue  = T{"true", SBool}
	tFalse = T{"false", SBool}
)

func intLit(n int64) T {
	if n < 0 {
		return T{fmt.Sprintf("(- %d)", -n), SInt}
	}
	return T{fmt.Sprintf("%d", n), SInt}
}

func bigIntLit(n *big.Int) T {
	if n.Sign() < 0 {
		return T{"(- " + new(big.Int).Neg(n).String() + ")", SInt}
	}
	return T{n.String(), SInt}
}

func ratLit(r *big.Rat) T {
	neg := r.Sign() < 0
	a := new(big.Rat).Abs(r)
	var s string
	if a.IsInt() {
		s = a.Num().String() + ".0"
	} else {
		s = "(/ " + a.Num().String() + ".0 " + a.Denom().String() + ".0)"
	}
	if neg {
		s = "(- " + s + ")"
	}
	return T{s, SReal}
}

func app(k Sort, op string, args ...T) T {
	var b strings.Builder
	b.WriteString("(")
	b.WriteString(op)
	for _, a := range args {
		b.WriteString(" ")
		b.WriteString(a.S)
	}
	b.WriteString(")")
	return T{b.String(), k}
}

func and(ts ...T) T {
	var xs []T
	for _, t := range ts {
		if t.S == "true" {
			continue
		}
		if t.S == "false" {
			return tFalse
		}
		xs = append(xs, t)
	}
	switch len(xs) {
	case 0:
		return tTrue
	case 1:
		return xs[0]
	}
	return app(SBool, "and", xs...)
}

func or(ts ...T) T {
	var xs []T
	for _, t := range ts {
		if t.S == "false" {
			continue
		}
		if t.S == "true" {
			return tTrue
		}
		xs = append(xs, t)
	}
	switch len(xs) {
	case 0:
		return tFalse
	case 1:
		return xs[0]
	}
	return app(SBool, "or", xs...)
}

func not(t T) T {
	if t.S == "true" {
		return tFalse
	}
	if t.S == "false" {
		return tTrue
	}
	return app(SBool, "not", t)
}

func implies(a, b T) T {
	if a.S == "true" {
		return b
	}
	if a.S == "false" || b.S == "true" {
		return tTrue
	}
	return app(SBool, "=>", a, b)
}

func eq(a, b T) T {
	if a.S == b.S {
		return tTrue
	}
	a, b = coerce2(a, b)
	return app(SBool, "=", a, b)
}

func ite(c, a, b T) T {
	if c.S == "true" {
		return a
	}
	if c.S == "false" {
		return b
	}
	if a.S == b.S {
		return a
	}
	a, b = coerce2(a, b)
	return app(a.K, "ite", c, a, b)
}

func toReal(t T) T {
	if t.K == SReal {
		return t
	}
	if t.K != SInt {
		panic("toReal of " + string(t.K) + ": " + t.S)
	}
	// literal shortcut
	if isDigits(t.S) {
		return T{t.S + ".0", SReal}
	}
	if strings.HasPrefix(t.S, "(- ") && isDigits(t.S[3:len(t.S)-1]) {
		return T{"(- " + t.S[3:len(t.S)-1] + ".0)", SReal}
	}
	return app(SReal, "to_real", t)
}

func isDigits(s string) bool {
	if s == "" {
		return false
	}
	for _, c := range s {
		if c < '0' || c > '9' {
			return false
		}
	}
	return true
}

// coerce2 lifts Int to Real when the sorts are mixed.
func coerce2(a, b T) (T, T) {
	if a.K == b.K {
		return a, b
	}
	if a.K == SInt && b.K == SReal {
		return toReal(a), b
	}
	if a.K == SReal && b.K == SInt {
		return a, toReal(b)
	}
	return a, b
}

func rawSel(arr T, idx T) T { return app(arr.K.elem(), "select", arr, idx) }

type storeInfo struct{ base, idx, val T }

// sel builds (select arr idx), simplified by read-over-write when the array is
// (a constant defined as) a store term whose index is syntactically equal or
// provably distinct.
func (c *Ctx) sel(arr T, idx T) T {
	cur := arr
	for depth := 0; depth < 64; depth++ {
		s := cur.S
		if d, ok := c.defOf[s]; ok {
			s = d
		}
		if m, isIte := c.ites[s]; isIte {
			// a heap merged at a join: read both sides. When the object was not
			// written on either side both reads resolve to the same earlier heap
			// and the merge disappears (for elements of slices of structs the
			// merged read is kept as an ite of the two reads).
			x, y := c.sel(m[1], idx), c.sel(m[2], idx)
			if x.S == y.S {
				return x
			}
			if strings.HasPrefix(idx.S, "(selem ") || (c.idRules() && strings.HasPrefix(idx.S, "(select H0_F.") && !strings.Contains(idx.S, "alloc")) {
				return ite(m[0], x, y)
			}
		}
		info, ok := c.stores[s]
		if !ok {
			break
		}
		if info.idx.S == idx.S {
			return info.val
		}
		if c.provablyDistinct(info.idx, idx) {
			cur = info.base
			continue
		}
		break
	}
	return rawSel(cur, idx)
}

func (c *Ctx) provablyDistinct(a, b T) bool {
	if isIntNumeral(a.S) && isIntNumeral(b.S) {
		return a.S != b.S
	}
	if ba, na, ok := splitBaseOff(a.S); ok {
		if bb, nb, ok2 := splitBaseOff(b.S); ok2 {
			if ba == bb {
				return na != nb
			}
			// object ids: a parameter's id lies below every allocation counter, and
			// ids handed out from different counters never coincide (an id is below
			// the counter value at every later program point)
			fa, fb := strings.HasPrefix(ba, "alloc!"), strings.HasPrefix(bb, "alloc!")
			isP := func(x string) bool {
				if !c.idRules() {
					return strings.Contains(x, "_id!")
				}
				return strings.Contains(x, "_id!") || strings.Contains(x, "_sref!") || strings.Contains(x, "_ref!") || strings.Contains(x, "_iref!")
			}
			pa, pb := isP(ba), isP(bb)
			if (fa && fb) || (fa && pb && c.isParamID(bb)) || (fb && pa && c.isParamID(ba)) {
				return true
			}
		}
	}
	// an element of a slice of structs is never the same object as a separately
	// allocated one (solver side: is_elem tags, see sliceElemObj / newID)
	ea, eb := strings.HasPrefix(a.S, "(selem "), strings.HasPrefix(b.S, "(selem ")
	if ea != eb {
		other := a.S
		if ea {
			other = b.S
		}
		if bo, _, ok := splitBaseOff(other); ok && strings.HasPrefix(bo, "alloc") {
			return true
		}
	}
	if c.distinctPairs[a.S+"|"+b.S] {
		return true
	}
	// an object id read from a field of the entry heap existed at entry; an id
	// handed out by an allocation counter did not
	entryLoaded := func(s string) bool {
		return (strings.HasPrefix(s, "(select H0_F.") || strings.HasPrefix(s, "(ghost.g_shapeid ") || strings.HasPrefix(s, "(ghost.g_unrollid ")) && !strings.Contains(s, "alloc")
	}
	allocBased := func(s string) bool {
		bo, _, ok := splitBaseOff(s)
		return ok && strings.HasPrefix(bo, "alloc!")
	}
	if c.idRules() && ((entryLoaded(a.S) && allocBased(b.S)) || (entryLoaded(b.S) && allocBased(a.S))) {
		return true
	}
	if ga, ok := c.distinctGrp[a.S]; ok {
		if gb, ok := c.distinctGrp[b.S]; ok && ga == gb && a.S != b.S {
			return true
		}
	}
	return false
}

func isIntNumeral(s string) bool {
	if strings.HasPrefix(s, "(- ") && strings.HasSuffix(s, ")") {
		return isDigits(s[3 : len(s)-1])
	}
	return isDigits(s)
}

func (c *Ctx) sto(arr, idx, v T) T {
	t := sto(arr, idx, v)
	if c.stores == nil {
		c.stores = map[string]storeInfo{}
	}
	c.stores[t.S] = storeInfo{arr, idx, v}
	return t
}
func sto(arr, idx, v T) T {
	if arr.K.elem() == SReal {
		v = toReal(v)
	}
	return app(arr.K, "store", arr, idx, v)
}

func zeroOf(k Sort) T {
	switch k {
	case SInt:
		return intLit(0)
	case SReal:
		return T{"0.0", SReal}
	case SBool:
		return tFalse
	}
	if k.isArr() {
		return T{"((as const " + string(k) + ") " + zeroOf(k.elem()).S + ")", k}
	}
	panic("zeroOf " + string(k))
}

// ---------------------------------------------------------------------
// Solver racing

type solverSpec struct {
	name string
	argv func(file string, timeoutS int) []string
	// prelude lines placed before the query
	prelude string
	// delay: started only if the obligation is still undecided after this long (extra
	// random seeds of a solver: cheap insurance against one unlucky heuristic run)
	delay time.Duration
}

var solvers = []solverSpec{
	{"z3-5.1.0", func(f string, t int) []string { return []string{"z3-new", fmt.Sprintf("-T:%d", t), f} }, "", 0},
	{"z3-4.8.12", func(f string, t int) []string { return []string{"z3", fmt.Sprintf("-T:%d", t), f} }, "", 0},
	{"cvc5-1.0.3", func(f string, t int) []string {
		return []string{"cvc5", fmt.Sprintf("--tlimit=%d", t*1000), "--produce-models", f}
	}, "(set-logic ALL)\n", 0},
	{"z3-5.1.0~seed1", func(f string, t int) []string {
		return []string{"z3-new", fmt.Sprintf("-T:%d", t), "smt.random_seed=1", "sat.random_seed=1", f}
	}, "", 2 * time.Second},
	{"z3-5.1.0~seed2", func(f string, t int) []string {
		return []string{"z3-new", fmt.Sprintf("-T:%d", t), "smt.random_seed=2", "sat.random_seed=2", f}
	}, "", 5 * time.Second},
}

type solveResult struct {
	Status string // unsat | sat | unknown | timeout | error
	Solver string
	Ms     int64
	Output string // raw output of the deciding solver (model for sat)
	All    map[string]string
	Second int    // thorough tier: further solvers/variants that gave the same definitive answer
	Clash  string // thorough tier: a solver that gave the opposite definitive answer on the full query
}

// thoroughMode (check --tier thorough): after the first definitive answer the
// other solvers get agreeGrace more to give a second opinion on the same query.
var thoroughMode bool

const agreeGrace = 1500 * time.Millisecond

var solverSem = make(chan struct{}, 4*runtime.NumCPU()) // safety cap on concurrent solver processes (see oblSem)

type queryVariant struct {
	tag      string // "" for the full query
	query    string
	satCount bool // a sat answer of this variant is meaningful
}

// solve races the installed solvers on the query variants; the first
// definitive answer wins (sat only from variants whose sat is meaningful).
// solveWith: like solve, restricted to the named solvers (nil: all).
var solverSubset []string

func solve(dir, name string, variants []queryVariant, timeoutS int) solveResult {
	return solveOn(dir, name, variants, timeoutS, nil)
}

func solveOn(dir, name string, variants []queryVariant, timeoutS int, only []string) solveResult {
	os.MkdirAll(dir, 0o755)
	base := filepath.Join(dir, sanitize(name))
	ctx, cancel := context.WithCancel(context.Background())
	defer cancel()
	type one struct {
		solver, status, out string
		ms                  int64
		definitive          bool
	}
	use := solvers
	if len(only) > 0 {
		use = nil
		for _, s := range solvers {
			for _, o := range only {
				if s.name == o {
					use = append(use, s)
				}
			}
		}
	}
	njobs := len(use) * len(variants)
	ch := make(chan one, njobs)
	var wg sync.WaitGroup
	for _, v := range variants {
		for _, s := range use {
			s, v := s, v
			tag := s.name
			if v.tag != "" {
				tag += "+" + v.tag
			}
			file := base + "." + tag + ".smt2"
			q := s.prelude + v.query
			os.WriteFile(file, []byte(q), 0o644)
			wg.Add(1)
			go func() {
				defer wg.Done()
				if s.delay > 0 {
					if v.tag != "" {
						ch <- one{tag, "cancelled", "", 0, false} // extra seeds only for the full query
						return
					}
					select {
					case <-time.After(s.delay):
					case <-ctx.Done():
						ch <- one{tag, "cancelled", "", 0, false}
						return
					}
				}
				select {
				case solverSem <- struct{}{}:
				case <-ctx.Done():
					ch <- one{tag, "cancelled", "", 0, false}
					return
				}
				defer func() { <-solverSem }()
				t0 := time.Now()
				argv := s.argv(file, timeoutS)
				cmd := exec.CommandContext(ctx, argv[0], argv[1:]...)
				var out bytes.Buffer
				cmd.Stdout = &out
				cmd.Stderr = &out
				cmd.Run()
				st := "unknown"
				first := strings.TrimSpace(strings.SplitN(out.String(), "\n", 2)[0])
				switch first {
				case "unsat", "sat", "unknown", "timeout":
					st = first
				default:
					if ctx.Err() != nil {
						st = "cancelled"
					} else if strings.Contains(out.String(), "timeout") || strings.Contains(out.String(), "interrupted") {
						st = "timeout"
					} else {
						st = "error"
					}
				}
				def := st == "unsat" || (st == "sat" && v.satCount)
				if st == "sat" && !v.satCount {
					st = "sat(ignored)"
				}
				ch <- one{tag, st, out.String(), time.Since(t0).Milliseconds(), def}
			}()
		}
	}
	res := solveResult{Status: "unknown", All: map[string]string{}}
	got := 0
	for got < njobs {
		o := <-ch
		got++
		res.All[o.solver] = o.status
		if o.definitive {
			res.Status, res.Solver, res.Ms, res.Output = o.status, o.solver, o.ms, o.out
			if thoroughMode {
				// second opinions: wait a little for the remaining solvers
				deadline := time.After(agreeGrace)
			grace:
				for got < njobs {
					select {
					case o2 := <-ch:
						got++
						res.All[o2.solver] = o2.status
						if o2.definitive && o2.status == res.Status {
							res.Second++
						} else if o2.definitive && !strings.Contains(o2.solver, "+") && !strings.Contains(res.Solver, "+") {
							res.Clash = o2.solver + ":" + o2.status
						}
					case <-deadline:
						break grace
					}
				}
			}
			cancel()
			break
		}
		if o.status == "error" && res.Output == "" {
			res.Output = o.solver + ": " + o.out
		}
		if o.ms > res.Ms {
			res.Ms = o.ms
		}
	}
	go func() { wg.Wait() }()
	if res.Status == "unknown" {
		allTO := true
		for _, s := range res.All {
			if s != "timeout" && s != "cancelled" {
				allTO = false
			}
		}
		if allTO {
			res.Status = "timeout"
		}
	}
	return res
}

func sanitize(s string) string {
	var b strings.Builder
	for _, c := range s {
		switch {
		case c >= 'a' && c <= 'z', c >= 'A' && c <= 'Z', c >= '0' && c <= '9', c == '.', c == '-', c == '_':
			b.WriteRune(c)
		default:
			b.WriteRune('_')
		}
	}
	r := b.String()
	if len(r) > 150 {
		r = r[:150]
	}
	return r
}

// splitBaseOff splits "(+ base n)" / "base" into (base, n).
func splitBaseOff(s string) (string, int, bool) {
	if strings.HasPrefix(s, "(+ ") && strings.HasSuffix(s, ")") {
		f := strings.Fields(s[3 : len(s)-1])
		if len(f) == 2 && isDigits(f[1]) && !strings.ContainsAny(f[0], "()") {
			n := 0
			fmt.Sscan(f[1], &n)
			return f[0], n, true
		}
		return "", 0, false
	}
	if s != "" && !strings.ContainsAny(s, "() ") && strings.Contains(s, "!") {
		return s, 0, true
	}
	return "", 0, false
}

func (c *Ctx) isParamID(sym string) bool { return c.paramIDs[sym] }

// idRules: the generation-time distinctness rules for object ids read from the
// entry heap and for parameter references are switched on per contract
// ("simplify entry-ids"): they change the shape of every heap read of the
// function, and proofs that were tuned without them stay as they were.
func (c *Ctx) idRules() bool { return c.fc != nil && c.fc.SimplifyIDs }
