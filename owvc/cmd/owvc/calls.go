package main

// Calls: by contract, by inlining, built-ins, math functions, ND interface
// methods (by interface contract).

import (
	"regexp"
	"fmt"
	"go/ast"
	"go/token"
	"go/types"
	"strings"

	"golang.org/x/tools/go/ssa"
)

const modulePrefix = "github.com/flowmatters/openwater-core"

func funcKey(fn *ssa.Function) string {
	pkg := ""
	if p := fn.Package(); p != nil {
		pkg = p.Pkg.Path()
	} else if fn.Parent() != nil && fn.Parent().Package() != nil {
		pkg = fn.Parent().Package().Pkg.Path()
	}
	return pkg + "." + funcRelName(fn)
}

func funcRelName(fn *ssa.Function) string {
	if recv := fn.Signature.Recv(); recv != nil {
		t := recv.Type()
		star := ""
		if p, ok := t.(*types.Pointer); ok {
			star = "*"
			t = p.Elem()
		}
		nm := t.String()
		if n, ok := t.(*types.Named); ok {
			nm = n.Obj().Name()
		}
		return "(" + star + nm + ")." + fn.Name()
	}
	return fn.Name()
}

func (c *Ctx) contractOf(fn *ssa.Function) *FuncContract {
	return c.cs.Funcs[funcKey(fn)]
}

func contractFuncKey(fc *FuncContract) string { return fc.Pkg + "." + fc.Name }

func hasLoops(fn *ssa.Function) bool {
	for _, b := range fn.Blocks {
		for _, s := range b.Succs {
			if s.Dominates(b) {
				return true
			}
		}
	}
	return false
}

func (fr *Frame) call(in ssa.Value, cc *ssa.CallCommon, st *State) Val {
	c := fr.c
	pos := in.Pos()
	var args []Val
	for _, a := range cc.Args {
		args = append(args, fr.get(a))
	}
	resT := cc.Signature().Results()
	wrap := func(vs []Val) Val {
		switch len(vs) {
		case 0:
			return TupleV{}
		case 1:
			if resT.Len() == 1 {
				return vs[0]
			}
		}
		return TupleV(vs)
	}
	if cc.IsInvoke() {
		recv := fr.get(cc.Value)
		rt := cc.Value.Type()
		if isErrorType(rt) {
			return c.fresh("errstr", SInt)
		}
		if isNDIface(rt) {
			iv, ok := recv.(IfaceV)
			if !ok {
				panic(vcErr("invoke on %T", recv))
			}
			// statically known dynamic type: call the concrete method
			if sp, ok := iv.Conc.(StructPtr); ok && sp.Nm != nil && !(c.fc != nil && c.fc.NDIfaceOnly) {
				if m := c.prog.LookupMethod(types.NewPointer(sp.Nm), cc.Method.Pkg(), cc.Method.Name()); m != nil {
					return wrap(fr.staticCall(m, nil, append([]Val{sp}, args...), st, pos))
				}
			}
			if c.locMode {
				return wrap(fr.locInvoke(iv, rt, cc.Method, args, st, pos))
			}
			fr.causalRead(cc, args, st, pos)
			return wrap(fr.ndInvoke(iv, rt, cc.Method, args, st, pos))
		}
		// any other interface: by the interface contract "iface Type.Method(...)"
		if nt, ok := rt.(*types.Named); ok {
			if fc := c.cs.Ifaces[nt.Obj().Name()+"."+cc.Method.Name()]; fc != nil {
				iv, ok := recv.(IfaceV)
				if !ok {
					panic(vcErr("invoke on %T", recv))
				}
				c.oblige(st, "nil", "", nil, app(SBool, ">", iv.Ref, intLit(0)), pos, "receiver of "+cc.Method.Name()+" is not nil")
				sig := cc.Method.Type().(*types.Signature)
				names := []string{"x"}
				for i := 0; i < sig.Params().Len(); i++ {
					names = append(names, sig.Params().At(i).Name())
				}
				return wrap(fr.callByContract(fc, sig, names, append([]Val{iv}, args...), st, pos, nt.Obj().Name()+"."+cc.Method.Name()))
			}
		}
		panic(vcErr("invoke of %s.%s unsupported (no interface contract)", rt, cc.Method.Name()))
	}
	switch callee := cc.Value.(type) {
	case *ssa.Builtin:
		return fr.builtin(callee.Name(), cc, args, st, pos, in.Type())
	case *ssa.Function:
		return wrap(fr.staticCall(callee, nil, args, st, pos))
	}
	fv, ok := fr.get(cc.Value).(FuncV)
	if !ok {
		panic(vcErr("dynamic call through %T", fr.get(cc.Value)))
	}
	if fv.Fn != nil {
		return wrap(fr.staticCall(fv.Fn, fv.Free, args, st, pos))
	}
	if fv.Nil {
		c.oblige(st, "nil", "", nil, tFalse, pos, "call of a nil function")
		return wrap(nil)
	}
	// a factory-like unknown function (no scalar result): returns a new, unknown object
	if fv.Sig != nil && fv.Sig.Results().Len() == 1 {
		if _, basic := sortOfBasic(fv.Sig.Results().At(0).Type()); !basic {
			c.declareFun(fv.Sym+"_isnil", nil, SBool)
			c.oblige(st, "nil", "", nil, not(T{fv.Sym + "_isnil", SBool}), pos, "call of a nil function")
			c.note("call of an unknown function value modelled as returning an unconstrained non-nil object without side effects (A-EXTERNAL)")
			v := c.freshVal(st, "obj", fv.Sig.Results().At(0).Type())
			if iv, ok := v.(IfaceV); ok {
				iv.Ref = c.newID(st)
				v = iv
			}
			return wrap([]Val{v})
		}
	}
	// uninterpreted pure function (A-PURE-FN)
	c.note("function-typed parameters are pure, deterministic functions (A-PURE-FN)")
	fr.ufCallHook(fv, args, st, pos)
	return c.applyUF(fv, args)
}

// ufCallHook: obligations attached to calls of function-typed parameters
// (callsite clauses "callsite fn assert ...").
func (fr *Frame) ufCallHook(fv FuncV, args []Val, st *State, pos token.Pos) {
	c := fr.c
	if fr.fc == nil {
		return
	}
	for _, cl := range fr.fc.Clauses {
		if cl.Kind != "callarg" {
			continue
		}
		// find which parameter this symbol belongs to
		pv, ok := fr.env0[cl.Callee]
		if !ok {
			continue
		}
		pf, ok := pv.(FuncV)
		if !ok || pf.Sym != fv.Sym {
			continue
		}
		env := fr.envAt(nil, st, nil)
		env = env.with("arg", args[0])
		c.oblige(st, "pre@call", cl.Label, cl.Props, c.evalBool(env, cl.Expr), pos, "argument of "+cl.Callee+": "+cl.Src)
	}
}

func (fr *Frame) staticCall(callee *ssa.Function, free []Val, args []Val, st *State, pos token.Pos) []Val {
	c := fr.c
	if c.fc != nil && (fr.top || c.locMode) && c.specMode == 0 {
		for _, cl := range c.fc.Clauses {
			if cl.Kind == "callinst" && cl.Callee == callee.Name() {
				env := &Env{c: c, fr: fr, st: st, old: fr.old, names: fr.env0, oldNames: fr.env0, bound: map[string]Val{}, blk: fr.curBlock, atLatch: true}
				for i, a := range args {
					env.bound[fmt.Sprintf("arg%d", i)] = a
				}
				c.assume(st.reach, c.lemmaInstance(env, cl.Src, cl.File, cl.Line))
			}
			if cl.Kind == "callsite" && cl.Callee == callee.Name() {
				env := &Env{c: c, fr: fr, st: st, old: fr.old, names: fr.env0, oldNames: fr.env0, bound: map[string]Val{}, blk: fr.curBlock, atLatch: true}
				for i, a := range args {
					env.bound[fmt.Sprintf("arg%d", i)] = a
				}
				g := c.evalBool(env, cl.Expr)
				c.oblige(st, "callsite", cl.Label, cl.Props, g, pos, "at the call of "+callee.Name()+": "+cl.Src)
				c.assume(st.reach, g) // proved here, available afterwards
			}
		}
	}
	pkgPath := ""
	if p := callee.Package(); p != nil {
		pkgPath = p.Pkg.Path()
	}
	name := callee.Name()
	switch pkgPath {
	case "math":
		return []Val{fr.mathCall(name, args, st, pos)}
	case "fmt":
		switch name {
		case "Printf", "Println", "Print":
			return []Val{c.fresh("n", SInt), ErrV{tTrue}}
		case "Sprintf", "Sprint", "Sprintln":
			return []Val{c.fresh("str", SInt)}
		case "Errorf":
			return []Val{ErrV{tFalse}}
		}
	case "errors":
		if name == "New" {
			return []Val{ErrV{tFalse}}
		}
	}
	if c.locMode {
		if kfc := c.contractOf(callee); kfc != nil && kfc.Kernel {
			return fr.locKernelCall(callee, kfc, args, st, pos)
		}
		if pkgPath == modulePrefix+"/data" {
			if out, ok := fr.locConstructor(callee, args, st); ok {
				return out
			}
		}
	}
	if c.fc != nil && c.fc.RowMajor && callee != c.top {
		// callers in the general-rank interface model use a callee's "#rowmajor" contract where there is one
		if vfc := c.cs.Funcs[funcKey(callee)+"#rowmajor"]; vfc != nil {
			return fr.callByContract(vfc, callee.Signature, paramNames(callee), args, st, pos, callee.String()+"#rowmajor")
		}
	}
	if c.fc != nil && c.fc.Variant != "" {
		if vfc := c.cs.Funcs[funcKey(callee)+"#"+c.fc.Variant]; vfc != nil && callee != c.top {
			return fr.callByContract(vfc, callee.Signature, paramNames(callee), args, st, pos, callee.String()+"#"+c.fc.Variant)
		}
	}
	if fc := c.contractOf(callee); fc != nil && !fc.Inline && (callee != c.top || len(c.inlineStack) == 0 && fr.top) {
		// a closure's contract may name its captured variables
		names := paramNames(callee)
		cargs := args
		if len(callee.FreeVars) > 0 && len(free) == len(callee.FreeVars) {
			if len(fc.Params) > 0 {
				names = fc.Params
			}
			names = append([]string{}, names...)
			cargs = append([]Val{}, args...)
			for i, fv := range callee.FreeVars {
				if cp, ok := free[i].(CellPtr); ok {
					if cv, ok := st.cells[cp.Key]; ok {
						names = append(names, fv.Name())
						cargs = append(cargs, cv)
					}
				}
			}
		}
		return fr.callByContract(fc, callee.Signature, names, cargs, st, pos, callee.String())
	}
	inModule := strings.HasPrefix(pkgPath, modulePrefix) || callee.Parent() != nil || callee.Synthetic != ""
	if inModule && len(callee.Blocks) > 0 {
		fc := c.contractOf(callee)
		if hasLoops(callee) && (fc == nil) {
			panic(vcErr("call of %s: the callee has loops and no contract", callee))
		}
		return c.inline(FuncV{Fn: callee, Free: free, Sig: callee.Signature}, args, st, pos)
	}
	// C08: the HDF5 library is not thread safe: every call into it needs the
	// package lock (ghost.hdf5lock: 0 free, 1 shared, 2 exclusive); calls that
	// create or write need it exclusively
	if pkgPath == "gonum.org/v1/hdf5" && c.specMode == 0 {
		lock := c.ghostCell(st, "hdf5lock")
		// calls that create or modify objects in a file
		writer := name == "CreateFile" || name == "CreateGroup" || strings.HasPrefix(name, "CreateDataset") || name == "Write" || name == "WriteSubset"
		if name == "Write" || name == "WriteSubset" {
			// ghost.hdf5datawrites counts the calls that write element data into a dataset
			cur := c.ghostCell(st, "hdf5datawrites")
			c.setCell(st, "ghost.hdf5datawrites", c.def("gw", ite(st.reach, addInt(cur, intLit(1)), cur)))
		}
		if strings.HasPrefix(name, "CreateDataset") {
			cur := c.ghostCell(st, "hdf5created")
			c.setCell(st, "ghost.hdf5created", c.def("gc", ite(st.reach, addInt(cur, intLit(1)), cur)))
		}
		if writer {
			c.oblige(st, "lock", "C08.lock-held-exclusively", []string{"C08"}, eq(lock, intLit(2)), pos, "call of hdf5."+name+" (creates or writes) while holding the package lock exclusively")
		} else {
			c.oblige(st, "lock", "C08.lock-held", []string{"C08"}, app(SBool, ">=", lock, intLit(1)), pos, "call of hdf5."+name+" while holding the package lock")
		}
	}
	// external: havoc the results and every struct object passed by pointer
	for _, a := range args {
		var sp StructPtr
		switch x := a.(type) {
		case StructPtr:
			sp = x
		case IfaceV:
			if cs, ok := x.Conc.(StructPtr); ok {
				sp = cs
			}
		}
		if sp.Typ != nil && strings.HasPrefix(typeKeyPkg(sp.Nm), modulePrefix) {
			fr.havocStruct(st, sp.Ref, sp.Key, sp.Typ)
			c.note("external call " + callee.String() + " may overwrite the struct passed by pointer: its fields are unconstrained afterwards")
		}
	}
	c.note("external call " + callee.String() + " modelled as returning unconstrained values without other side effects (A-EXTERNAL)")
	var out []Val
	rs := callee.Signature.Results()
	for i := 0; i < rs.Len(); i++ {
		out = append(out, c.freshVal(st, "ext_"+name, rs.At(i).Type()))
	}
	if pkgPath == "gonum.org/v1/hdf5" && len(out) >= 2 {
		// assumed library contract (A-HDF5): a call that reports no error returns non-nil handles
		if ev, ok := out[len(out)-1].(ErrV); ok {
			for _, o := range out[:len(out)-1] {
				if sp, ok := o.(StructPtr); ok {
					c.assume(st.reach, implies(ev.Nil, app(SBool, ">", sp.Ref, intLit(0))))
				}
			}
		}
	}
	return out
}

func paramNames(fn *ssa.Function) []string {
	var ns []string
	for _, p := range fn.Params {
		ns = append(ns, p.Name())
	}
	return ns
}

// inline executes the callee's body in the caller's context.
func (c *Ctx) inline(fv FuncV, args []Val, st *State, pos token.Pos) []Val {
	if len(c.inlineStack) > 8 {
		panic(vcErr("inlining depth exceeded at %s", fv.Fn))
	}
	for _, s := range c.inlineStack {
		if s == fv.Fn.String() {
			panic(vcErr("recursive inlining of %s", fv.Fn))
		}
	}
	c.inlineStack = append(c.inlineStack, fv.Fn.String())
	defer func() { c.inlineStack = c.inlineStack[:len(c.inlineStack)-1] }()
	fc := c.contractOf(fv.Fn)
	fr := c.newFrame(fv.Fn, fc, args, fv.Free, false)
	fr.old = st.clone()
	fr.env0 = map[string]Val{}
	names := paramNames(fv.Fn)
	if fc != nil && len(fc.Params) > 0 {
		names = fc.Params
	}
	for i, n := range names {
		if i < len(args) {
			fr.env0[n] = args[i]
		}
	}
	rst, vals := fr.run(st)
	if rst == nil {
		st.reach = tFalse
		var out []Val
		rs := fv.Fn.Signature.Results()
		for i := 0; i < rs.Len(); i++ {
			out = append(out, zeroVal(rs.At(i).Type()))
		}
		return out
	}
	*st = *rst
	return vals
}

// callByContract: assert requires, havoc assigns, assume ensures.
func (fr *Frame) callByContract(fc *FuncContract, sig *types.Signature, srcNames []string, args []Val, st *State, pos token.Pos, what string) []Val {
	c := fr.c
	names := srcNames
	if len(fc.Params) > 0 && len(srcNames) <= len(fc.Params) {
		names = fc.Params
	}
	env := &Env{c: c, fr: fr, st: st, names: map[string]Val{}}
	for i, n := range names {
		if i < len(args) {
			env.names[n] = args[i]
		}
	}
	if fc.Trusted != "" {
		c.note("assumed contract for " + what + ": " + fc.Trusted)
	}
	// array arguments must not be nil unless the callee declares them nullable
	for i, n := range names {
		if i >= len(args) || strings.HasPrefix(what, "ND.") {
			continue
		}
		if iv, ok := args[i].(IfaceV); ok && i < sig.Params().Len() && isNDIface(sig.Params().At(i).Type()) && !contains(fc.Nullable, n) {
			c.oblige(st, "nil", "", nil, app(SBool, ">", iv.Ref, intLit(0)), pos, fmt.Sprintf("argument %s of %s is not nil", n, what))
		}
	}
	for _, cl := range fc.Clauses {
		if cl.Kind != "requires" {
			continue
		}
		g := c.evalBool(env, cl.Expr)
		c.oblige(st, "pre@call", cl.Label, cl.Props, g, pos, fmt.Sprintf("precondition of %s: %s", what, cl.Src))
	}
	pre := st.clone()
	// a callee whose postcondition speaks of objects it allocated (fresh(x)):
	// its allocations lie between the counter before and after the call
	for _, cl := range fc.Clauses {
		if cl.Kind == "ensures" && strings.Contains(cl.Src, "fresh(") {
			na := c.fresh("alloc", SInt)
			c.emit(fmt.Sprintf("(assert (>= %s %s))", na.S, st.alloc.S))
			st.alloc = na
			break
		}
	}
	// frame
	if !fc.HasAssigns {
		c.note("contract of " + what + " has no assigns clause: treated as assigning nothing")
	}
	// ensures of the form  X.cells == upd(old(X.cells), K, V)  are executed as a
	// direct array update (keeps read-over-write simplification available)
	direct := map[string]*Clause{}
	for _, cl := range fc.Clauses {
		if cl.Kind == "ensures" {
			if tgt, _, _, ok := updPattern(cl.Expr); ok {
				direct[tgt+".cells"] = cl
			}
		}
	}
	done := map[*Clause]bool{}
	for _, a := range fc.Assigns {
		a = strings.TrimSpace(a)
		if cl, ok := direct[a]; ok {
			tgt, kx, vx, _ := updPattern(cl.Expr)
			if xv, ok := env.lookup(tgt); ok {
				if iv, ok := xv.(IfaceV); ok {
					k := c.eval(env, kx).(T)
					v := c.eval(env, vx).(T)
					es := SReal
					if iv.Typ != nil && isNDIface(iv.Typ) {
						es = ndElemSort(iv.Typ)
					}
					name := "ND.cells." + string(es)
					h := c.heap(st, name, heapSort(es))
					inner := c.sto(c.sel(h, iv.Ref), k, v)
					c.setHeap(st, name, c.def("Hc", c.sto(h, iv.Ref, inner)), &iv.Ref)
					done[cl] = true
					continue
				}
			}
		}
		fr.havocTarget(env, st, a)
	}
	// results
	var out []Val
	rs := sig.Results()
	post := &Env{c: c, fr: fr, st: st, old: pre, names: copyMap(env.names), oldNames: env.names}
	for i := 0; i < rs.Len(); i++ {
		v := c.freshVal(st, "r_"+sanitize(what), rs.At(i).Type())
		isFresh := (i < len(fc.Results) && contains(fc.Fresh, fc.Results[i])) || contains(fc.Fresh, fmt.Sprintf("r%d", i))
		if isFresh {
			switch x := v.(type) {
			case SliceV:
				x.ID = c.newID(st)
				v = x
			case StructPtr:
				x.Ref = c.newID(st)
				v = x
			case IfaceV:
				x.Ref = c.newID(st)
				v = x
			}
		}
		if i < len(fc.Results) {
			if tn, ok := fc.DynTypes[fc.Results[i]]; ok {
				if iv, ok := v.(IfaceV); ok {
					if sp, ok := c.structByName(tn); ok {
						sp.Ref = iv.Ref
						iv.Conc = sp
						iv.Typ = types.NewPointer(sp.Nm)
						v = iv
					}
				}
			}
		}
		if sv, ok := v.(SliceV); ok && i < len(fc.Results) {
			// "R.id == x.g_attr" in a postcondition: the result is that very object
			// (substituted, so that later reads through it simplify syntactically)
			re := regexp.MustCompile(`(^|&& )` + regexp.QuoteMeta(fc.Results[i]) + `\.id == (\w+\.g_\w+)( &&|$)`)
			for _, cl := range fc.Clauses {
				if cl.Kind != "ensures" {
					continue
				}
				if m := re.FindStringSubmatch(cl.Src); m != nil {
					func() {
						defer func() { recover() }()
						if t, ok := c.eval(post, parseExprSrc(m[2], cl.File, cl.Line)).(T); ok {
							sv.ID = t
							v = sv
						}
					}()
					break
				}
			}
		}
		out = append(out, v)
		if i < len(fc.Results) {
			post.names[fc.Results[i]] = v
		}
		post.names[fmt.Sprintf("r%d", i)] = v
		if rs.Len() == 1 {
			post.names["result"] = v
		}
	}
	for _, cl := range fc.Clauses {
		if cl.Kind != "ensures" || done[cl] {
			continue
		}
		// a postcondition that speaks about the callee's locals is proved for
		// the callee but is not available to callers
		func() {
			defer func() {
				if r := recover(); r != nil {
					if e, ok := r.(vcError); ok && strings.Contains(e.msg, "cannot be resolved") {
						return
					}
					panic(r)
				}
			}()
			c.assume(st.reach, c.evalBool(post, cl.Expr))
		}()
	}
	return out
}

// updPattern matches  X.cells == upd(old(X.cells), K, V).
func updPattern(e ast.Expr) (target string, k, v ast.Expr, ok bool) {
	be, isBin := e.(*ast.BinaryExpr)
	if !isBin || be.Op != token.EQL {
		return
	}
	lhs, isSel := be.X.(*ast.SelectorExpr)
	if !isSel || lhs.Sel.Name != "cells" {
		return
	}
	x, isId := lhs.X.(*ast.Ident)
	if !isId {
		return
	}
	call, isCall := be.Y.(*ast.CallExpr)
	if !isCall || len(call.Args) != 3 {
		return
	}
	if f, isF := call.Fun.(*ast.Ident); !isF || f.Name != "upd" {
		return
	}
	oc, isOld := call.Args[0].(*ast.CallExpr)
	if !isOld || len(oc.Args) != 1 {
		return
	}
	if f, isF := oc.Fun.(*ast.Ident); !isF || f.Name != "old" {
		return
	}
	os_, isSel2 := oc.Args[0].(*ast.SelectorExpr)
	if !isSel2 || os_.Sel.Name != "cells" {
		return
	}
	if ox, isId2 := os_.X.(*ast.Ident); !isId2 || ox.Name != x.Name {
		return
	}
	return x.Name, call.Args[1], call.Args[2], true
}

// havocTarget havocs one assigns target, e.g. "x.cells", "s[*]", "p.Field", "*".
func (fr *Frame) havocTarget(env *Env, st *State, target string) {
	c := fr.c
	target = strings.TrimSpace(target)
	if target == "*" {
		for _, name := range sortedKeys(c.heapSorts) {
			c.setHeap(st, name, c.fresh("Hc_"+name, c.heapSorts[name]), nil)
		}
		return
	}
	if strings.HasPrefix(target, "ghost.") {
		c.ghostCell(st, strings.TrimPrefix(target, "ghost."))
		c.setCell(st, target, c.fresh("ghost_"+strings.TrimPrefix(target, "ghost."), SInt))
		return
	}
	if strings.HasSuffix(target, "[*]") {
		src := strings.TrimSuffix(target, "[*]")
		v := c.eval(env, parseExprSrc(src, "assigns", 0))
		if ap, ok := v.(ArrPtr); ok {
			name := "H." + string(ap.Elem)
			h := c.heap(st, name, heapSort(ap.Elem))
			c.setHeap(st, name, c.def("Hc", c.sto(h, ap.ID, c.fresh("cells", arrSort(ap.Elem)))), &ap.ID)
			return
		}
		s, ok := v.(SliceV)
		if !ok {
			panic(vcErr("assigns target %s is not a slice", target))
		}
		name := "H." + string(s.Elem)
		h := c.heap(st, name, heapSort(s.Elem))
		c.setHeap(st, name, c.def("Hc", c.sto(h, s.ID, c.fresh("cells", arrSort(s.Elem)))), &s.ID)
		return
	}
	if i := strings.LastIndex(target, "."); i > 0 {
		v := c.eval(env, parseExprSrc(target[:i], "assigns", 0))
		f := target[i+1:]
		switch x := v.(type) {
		case IfaceV:
			if f == "cells" {
				k := SReal
				if x.Typ != nil && isNDIface(x.Typ) {
					k = ndElemSort(x.Typ)
				}
				name := "ND.cells." + string(k)
				h := c.heap(st, name, heapSort(k))
				c.setHeap(st, name, c.def("Hc", c.sto(h, x.Ref, c.fresh("cells", arrSort(k)))), &x.Ref)
				if c.fc != nil && c.fc.RowMajor {
					// the slice x.Unroll() returns may be x's own storage: it changes with the elements
					c.declareFun("ghost.g_unrollid", []Sort{SInt}, SInt)
					uid := app(SInt, "ghost.g_unrollid", x.Ref)
					hn := "H." + string(k)
					hh := c.heap(st, hn, heapSort(k))
					save := c.inUnrollHavoc
					c.inUnrollHavoc = true
					c.setHeap(st, hn, c.def("Hc", c.sto(hh, uid, c.fresh("unrolled", arrSort(k)))), &uid)
					c.inUnrollHavoc = save
				}
				return
			}
		case StructPtr:
			key, fld := findField(x.Key, x.Typ, f)
			if fld == nil {
				panic(vcErr("assigns target %s: no such field", target))
			}
			fr.storeLoc(st, "F."+key+"."+fld.Name(), x.Ref, fld.Type(), c.freshVal(st, "fld_"+f, fld.Type()))
			return
		}
	}
	panic(vcErr("assigns target %q unsupported", target))
}

func (fr *Frame) builtin(name string, cc *ssa.CallCommon, args []Val, st *State, pos token.Pos, rt types.Type) Val {
	c := fr.c
	switch name {
	case "len", "cap":
		switch s := args[0].(type) {
		case SliceV:
			return s.Len
		case T:
			return c.fresh("strlen", SInt)
		case MapV:
			return intLit(int64(len(s.Entries)))
		}
	case "append":
		s := args[0].(SliceV)
		if len(args) == 1 {
			return s
		}
		t := args[1].(SliceV)
		if s.Elem == "" {
			panic(vcErr("append to slice of non-scalars"))
		}
		// result: fresh backing array holding s followed by t
		name := "H." + string(s.Elem)
		h := c.heap(st, name, heapSort(s.Elem))
		id := c.newID(st)
		arr := c.fresh("app", arrSort(s.Elem))
		n := c.def("len", app(SInt, "+", s.Len, t.Len))
		c.nsym++
		q := fmt.Sprintf("q_k_%d", c.nsym)
		srcS := c.sel(h, s.ID)
		srcT := c.sel(h, t.ID)
		c.assume(tTrue, T{fmt.Sprintf("(forall ((%s Int)) (! (=> (and (<= 0 %s) (< %s %s)) (= (select %s %s) (ite (< %s %s) (select %s (+ %s %s)) (select %s (+ %s (- %s %s)))))) :pattern ((select %s %s))))",
			q, q, q, n.S, arr.S, q, q, s.Len.S, srcS.S, s.Off.S, q, srcT.S, t.Off.S, q, s.Len.S, arr.S, q), SBool})
		c.setHeap(st, name, c.def("H", c.sto(h, id, arr)), &id)
		c.note("append always yields a fresh backing array (capacity is not modelled)")
		return SliceV{id, intLit(0), n, s.Elem, s.ElemT}
	case "copy":
		if fr.fc != nil && fr.top {
			for _, cl := range fr.fc.Clauses {
				if cl.Kind == "callsite" && cl.Callee == "copy" {
					env := fr.envAt(fr.curBlock, st, nil)
					env.atLatch = true
					env.bound = map[string]Val{"arg0": args[0], "arg1": args[1]}
					g := c.evalBool(env, cl.Expr)
					c.oblige(st, "callsite", cl.Label, cl.Props, g, pos, "at the call of copy: "+cl.Src)
					c.assume(st.reach, g)
				}
			}
		}
		d := args[0].(SliceV)
		s := args[1].(SliceV)
		name := "H." + string(d.Elem)
		h := c.heap(st, name, heapSort(d.Elem))
		n := c.def("ncopy", ite(app(SBool, "<=", d.Len, s.Len), d.Len, s.Len))
		arr := c.fresh("cpy", arrSort(d.Elem))
		c.nsym++
		q := fmt.Sprintf("q_k_%d", c.nsym)
		dst := c.sel(h, d.ID)
		src := c.sel(h, s.ID)
		// arr[k] = src[s.off + (k - d.off)] for d.off <= k < d.off+n ; else dst[k]
		c.assume(tTrue, T{fmt.Sprintf("(forall ((%s Int)) (! (= (select %s %s) (ite (and (<= %s %s) (< %s (+ %s %s))) (select %s (+ %s (- %s %s))) (select %s %s))) :pattern ((select %s %s))))",
			q, arr.S, q, d.Off.S, q, q, d.Off.S, n.S, src.S, s.Off.S, q, d.Off.S, dst.S, q, arr.S, q), SBool})
		c.setHeap(st, name, c.def("H", c.sto(h, d.ID, arr)), &d.ID)
		return n
	case "print", "println":
		return TupleV{}
	case "min", "max":
		a, b := args[0].(T), args[1].(T)
		a, b = coerce2(a, b)
		if name == "min" {
			return ite(app(SBool, "<=", a, b), a, b)
		}
		return ite(app(SBool, ">=", a, b), a, b)
	}
	panic(vcErr("builtin %s unsupported", name))
}

// ------------------------------------------------------------------
// math

func (fr *Frame) mathCall(name string, args []Val, st *State, pos token.Pos) Val {
	c := fr.c
	var ts []T
	for _, a := range args {
		t, ok := a.(T)
		if !ok {
			panic(vcErr("math.%s on %T", name, a))
		}
		ts = append(ts, t)
	}
	real0 := T{"0.0", SReal}
	for _, t := range ts {
		if c.isNaN(t) {
			panic(vcErr("math.%s applied to a NaN-tainted value is not modelled in NaN mode", name))
		}
	}
	switch name {
	case "Min":
		return c.def("min", ite(app(SBool, "<=", ts[0], ts[1]), ts[0], ts[1]))
	case "Max":
		return c.def("max", ite(app(SBool, ">=", ts[0], ts[1]), ts[0], ts[1]))
	case "Abs":
		return c.def("abs", ite(app(SBool, ">=", ts[0], real0), ts[0], app(SReal, "-", ts[0])))
	case "NaN", "Inf":
		c.note("math.NaN()/math.Inf() are modelled as fixed unknown reals (A-REAL)")
		c.declareFun("m_"+strings.ToLower(name), nil, SReal)
		return T{"m_" + strings.ToLower(name), SReal}
	case "IsNaN", "IsInf":
		c.note("float64 modelled as mathematical reals: math.IsNaN/IsInf are false (A-REAL)")
		return tFalse
	case "Pow":
		c.oblige(st, "domain", "", nil, or(app(SBool, ">", ts[0], real0), and(eq(ts[0], real0), app(SBool, ">=", ts[1], real0)), c.isIntegral(ts[1])), pos,
			"math.Pow: base > 0, or base = 0 with exponent >= 0, or integral exponent")
		return c.mathApp(st, "pow", ts)
	case "Log", "Log10":
		c.oblige(st, "domain", "", nil, app(SBool, ">", ts[0], real0), pos, "math.Log: argument > 0")
		return c.mathApp(st, strings.ToLower(name), ts)
	case "Sqrt":
		c.oblige(st, "domain", "", nil, app(SBool, ">=", ts[0], real0), pos, "math.Sqrt: argument >= 0")
		return c.mathApp(st, "sqrt", ts)
	case "Exp", "Tanh", "Cos", "Floor", "Ceil":
		return c.mathApp(st, strings.ToLower(name), ts)
	}
	panic(vcErr("math.%s unsupported", name))
}

func (c *Ctx) isIntegral(t T) T {
	return eq(t, app(SReal, "to_real", app(SInt, "to_int", t)))
}

// mathApp returns the application of an uninterpreted math function and
// emits instances of the trusted axioms (A-MATH) for this application.
func (c *Ctx) mathApp(st *State, name string, ts []T) T {
	real0 := T{"0.0", SReal}
	real1 := T{"1.0", SReal}
	gt := func(a, b T) T { return app(SBool, ">", a, b) }
	ge := func(a, b T) T { return app(SBool, ">=", a, b) }
	le := func(a, b T) T { return app(SBool, "<=", a, b) }
	lt := func(a, b T) T { return app(SBool, "<", a, b) }
	switch name {
	case "floor":
		return app(SReal, "to_real", app(SInt, "to_int", ts[0]))
	case "ceil":
		return app(SReal, "-", app(SReal, "to_real", app(SInt, "to_int", app(SReal, "-", ts[0]))))
	}
	var sorts []Sort
	for range ts {
		sorts = append(sorts, SReal)
	}
	c.declareFun("m_"+name, sorts, SReal)
	t := app(SReal, "m_"+name, ts...)
	if c.inQuant > 0 {
		return t
	}
	c.note("A-MATH: math." + name + " is an uninterpreted function constrained only by the axioms listed in DESIGN.md §4.5")
	ax := func(f T) { c.emit("(assert " + f.S + ")") }
	x := ts[0]
	switch name {
	case "exp":
		ax(gt(t, real0))
		ax(implies(eq(x, real0), eq(t, real1)))
		ax(implies(le(x, real0), le(t, real1)))
		ax(implies(ge(x, real0), ge(t, real1)))
	case "tanh":
		ax(and(gt(t, T{"(- 1.0)", SReal}), lt(t, real1)))
		ax(implies(ge(x, real0), ge(t, real0)))
		ax(implies(eq(x, real0), eq(t, real0)))
		ax(implies(gt(x, real0), gt(t, real0)))
		ax(implies(le(x, real0), le(t, real0)))
	case "pow":
		p := ts[1]
		ax(implies(gt(x, real0), gt(t, real0)))
		ax(implies(and(ge(x, real0), gt(p, real0)), ge(t, real0)))
		ax(implies(and(eq(x, real0), gt(p, real0)), eq(t, real0)))
		ax(implies(eq(p, real0), eq(t, real1)))
		ax(implies(eq(p, real1), eq(t, x)))
		ax(implies(eq(p, T{"2.0", SReal}), eq(t, app(SReal, "*", x, x))))
		ax(implies(eq(x, real1), eq(t, real1)))
		ax(implies(and(ge(x, real1), ge(p, real0)), ge(t, real1)))
		ax(implies(and(ge(x, real1), le(p, real0)), le(t, real1)))
		ax(implies(and(ge(x, real0), le(x, real1), ge(p, real0)), le(t, real1)))
		ax(implies(and(gt(x, real0), le(x, real1), le(p, real0)), ge(t, real1)))
	case "sqrt":
		ax(implies(ge(x, real0), and(ge(t, real0), eq(app(SReal, "*", t, t), x))))
	case "log", "log10":
		ax(implies(eq(x, real1), eq(t, real0)))
		ax(implies(gt(x, real1), gt(t, real0)))
		ax(implies(and(gt(x, real0), lt(x, real1)), lt(t, real0)))
	case "cos":
		ax(and(ge(t, T{"(- 1.0)", SReal}), le(t, real1)))
	}
	// monotonicity against earlier applications of the same function
	for _, prev := range c.mathApps[name] {
		px := prev[0]
		pt := app(SReal, "m_"+name, prev...)
		switch name {
		case "exp", "tanh", "log", "log10", "sqrt":
			ax(implies(le(px, x), le(pt, t)))
			ax(implies(le(x, px), le(t, pt)))
			ax(implies(eq(x, px), eq(t, pt)))
		case "pow":
			if prev[0].S == x.S {
				// x^p * x^(-p) = 1 for x > 0
				ax(implies(and(gt(x, real0), eq(prev[1], app(SReal, "-", ts[1]))), eq(app(SReal, "*", pt, t), real1)))
			}
			if prev[1].S == ts[1].S {
				ax(implies(and(gt(ts[1], real0), ge(px, real0), le(px, x)), le(pt, t)))
				ax(implies(and(gt(ts[1], real0), ge(x, real0), le(x, px)), le(t, pt)))
			}
		}
	}
	c.mathApps[name] = append(c.mathApps[name], ts)
	return t
}

// ------------------------------------------------------------------
// ND interface methods by interface contract

func (fr *Frame) ndInvoke(recv IfaceV, rt types.Type, m *types.Func, args []Val, st *State, pos token.Pos) []Val {
	c := fr.c
	name := m.Name()
	fc := c.cs.Ifaces[name]
	if c.fc != nil && c.fc.RowMajor {
		// general-rank interface model: element j (row-major) of x is x.at(j), its extents are x.shape
		fc = c.cs.Ifaces["rowmajor:"+name]
		if alt := c.cs.Ifaces[c.fc.RowMajorForm+":"+name]; alt != nil {
			fc = alt
		}
	}
	if fc == nil {
		panic(vcErr("no interface contract for ND method %s", name))
	}
	recv.Typ = rt
	c.oblige(st, "nil", "", nil, app(SBool, ">", recv.Ref, intLit(0)), pos, "receiver of "+name+" is not nil")
	all := append([]Val{recv}, args...)
	// "callsite iface:Method" clauses apply to calls through the array interfaces (arg0 is the receiver)
	if c.fc != nil && (fr.top || c.locMode) && c.specMode == 0 {
		for _, cl := range c.fc.Clauses {
			if (cl.Kind != "callsite" && cl.Kind != "callinst") || cl.Callee != "iface:"+name {
				continue
			}
			env := &Env{c: c, fr: fr, st: st, old: fr.old, names: fr.env0, oldNames: fr.env0, bound: map[string]Val{}, blk: fr.curBlock, atLatch: true}
			for i, a := range all {
				env.bound[fmt.Sprintf("arg%d", i)] = a
			}
			if cl.Kind == "callinst" {
				c.assume(st.reach, c.lemmaInstance(env, cl.Src, cl.File, cl.Line))
				continue
			}
			g := c.evalBool(env, cl.Expr)
			c.oblige(st, "callsite", cl.Label, cl.Props, g, pos, "at the call of "+name+": "+cl.Src)
			c.assume(st.reach, g)
		}
	}
	sig := m.Type().(*types.Signature)
	names := []string{"x"}
	for i := 0; i < sig.Params().Len(); i++ {
		names = append(names, sig.Params().At(i).Name())
	}
	return fr.callByContract(fc, sig, names, all, st, pos, "ND."+name)
}

// causalRead: inside a kernel's time loop, an input series may only be read
// at indices up to the current timestep (C14: outputs at t do not depend on
// inputs after t).
func (fr *Frame) causalRead(cc *ssa.CallCommon, args []Val, st *State, pos token.Pos) {
	c := fr.c
	if !fr.top || fr.fc == nil || !fr.fc.Kernel || fr.fc.CausalByEnsures || fr.curBlock == nil {
		return
	}
	p, ok := cc.Value.(*ssa.Parameter)
	if !ok {
		return
	}
	if fr.timeLoop == nil {
		fr.timeLoop = fr.timeLoopOf()
		fr.inputs = fr.inputSeries()
	}
	li := fr.timeLoop
	if li == nil || !li.blocks[fr.curBlock] || !fr.inputs[p] {
		return
	}
	idxPhi := loopIndexPhi(li)
	if idxPhi == nil {
		return
	}
	i, ok := fr.vals[idxPhi].(T)
	if !ok {
		return
	}
	var idx T
	switch cc.Method.Name() {
	case "Get":
		loc, ok := args[0].(SliceV)
		if !ok || loc.Elem != SInt {
			return
		}
		h := c.heap(st, "H.Int", heapSort(SInt))
		idx = c.sel(c.sel(h, loc.ID), loc.Off)
	case "Get1":
		idx, ok = args[0].(T)
		if !ok {
			return
		}
	case "Len1", "Len", "Shape", "NDims":
		return
	default:
		c.oblige(st, "frame", "C14.causal-read", []string{"C14"}, tFalse, pos,
			fmt.Sprintf("input series %s is read element-wise in the time loop (whole-array method %s used)", p.Name(), cc.Method.Name()))
		return
	}
	c.oblige(st, "causal", "C14.causal-read", []string{"C14"}, app(SBool, "<=", idx, i), pos,
		fmt.Sprintf("input series %s is read at an index <= the current timestep", p.Name()))
}

// structByName finds a struct type of the package under verification (or of a
// package it imports) by name.
func (c *Ctx) structByName(name string) (StructPtr, bool) {
	var pkg *types.Package
	if c.top != nil && c.top.Package() != nil {
		pkg = c.top.Package().Pkg
	}
	if pkg == nil {
		return StructPtr{}, false
	}
	obj := pkg.Scope().Lookup(name)
	if obj == nil {
		for _, imp := range pkg.Imports() {
			if o := imp.Scope().Lookup(name); o != nil {
				obj = o
			}
		}
	}
	if obj == nil {
		return StructPtr{}, false
	}
	st, ok := obj.Type().Underlying().(*types.Struct)
	if !ok {
		return StructPtr{}, false
	}
	return StructPtr{Key: typeKey(obj.Type()), Typ: st, Nm: obj.Type()}, true
}

func typeKeyPkg(t types.Type) string {
	if nt, ok := t.(*types.Named); ok && nt.Obj().Pkg() != nil {
		return nt.Obj().Pkg().Path()
	}
	return ""
}

// havocStruct gives every field of the struct object ref an unconstrained value.
func (fr *Frame) havocStruct(st *State, ref T, key string, s *types.Struct) {
	for i := 0; i < s.NumFields(); i++ {
		f := s.Field(i)
		if es, ok := f.Type().Underlying().(*types.Struct); ok {
			if f.Embedded() {
				fr.havocStruct(st, ref, typeKey(f.Type()), es)
			} else {
				fr.havocStruct(st, ref, key+"."+f.Name(), es)
			}
			continue
		}
		fr.storeLoc(st, "F."+key+"."+f.Name(), ref, f.Type(), fr.c.freshVal(st, "ext_"+f.Name(), f.Type()))
	}
}
