package main

import "testing"

func TestSimplestRat(t *testing.T) {
	for _, c := range []struct {
		f    float64
		want string
	}{{0.001, "1/1000"}, {4.0 / 9.0, "4/9"}, {2.5, "5/2"}, {13, "13"}, {1e-8, "1/100000000"}, {0.9, "9/10"}, {-0.25, "-1/4"}, {365.25, "1461/4"}, {1e37, "10000000000000000000000000000000000000"}, {101.325, "4053/40"}, {0.0065, "13/2000"}} {
		if got := simplestRat(c.f).RatString(); got != c.want {
			t.Errorf("simplestRat(%v) = %s, want %s", c.f, got, c.want)
		}
	}
}
