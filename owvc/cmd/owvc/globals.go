package main

// Read-only package-level arrays: the initialiser literal is taken from the
// source, and the global must never be stored to anywhere in the module
// (checked over all loaded module functions).

import (
	"go/ast"
	"go/constant"
	"go/token"
	"go/types"
	"math/big"
	"strings"

	"golang.org/x/tools/go/packages"
	"golang.org/x/tools/go/ssa"
)

var loadedPkgs []*packages.Package
var globalWriteCache = map[*ssa.Global]bool{}

// globalWritten reports whether any function of the module (other than a
// package initialiser) stores through the global.
func globalWritten(prog *ssa.Program, g *ssa.Global) bool {
	if w, ok := globalWriteCache[g]; ok {
		return w
	}
	written := false
	var scan func(fn *ssa.Function)
	scan = func(fn *ssa.Function) {
		if fn == nil || fn.Name() == "init" {
			return
		}
		for _, b := range fn.Blocks {
			for _, in := range b.Instrs {
				st, ok := in.(*ssa.Store)
				if !ok {
					continue
				}
				a := st.Addr
				for {
					switch x := a.(type) {
					case *ssa.IndexAddr:
						a = x.X
						continue
					case *ssa.FieldAddr:
						a = x.X
						continue
					case *ssa.Slice:
						// a slice of a package-level array shares its storage
						a = x.X
						continue
					}
					break
				}
				if a == ssa.Value(g) {
					written = true
				}
			}
		}
		for _, an := range fn.AnonFuncs {
			scan(an)
		}
	}
	for _, p := range prog.AllPackages() {
		if !strings.HasPrefix(p.Pkg.Path(), modulePrefix) {
			continue
		}
		for _, m := range p.Members {
			if fn, ok := m.(*ssa.Function); ok {
				scan(fn)
			}
			if t, ok := m.(*ssa.Type); ok {
				for _, tt := range []types.Type{t.Type(), types.NewPointer(t.Type())} {
					ms := prog.MethodSets.MethodSet(tt)
					for i := 0; i < ms.Len(); i++ {
						scan(prog.MethodValue(ms.At(i)))
					}
				}
			}
		}
	}
	globalWriteCache[g] = written
	return written
}

func (c *Ctx) constGlobal(g *ssa.Global) (ConstArr, bool) {
	at, ok := g.Type().(*types.Pointer).Elem().Underlying().(*types.Array)
	if !ok {
		return ConstArr{}, false
	}
	k, ok := sortOfBasic(at.Elem())
	if !ok {
		return ConstArr{}, false
	}
	var lit *ast.CompositeLit
	var info *types.Info
	packages.Visit(loadedPkgs, nil, func(p *packages.Package) {
		if p.Types != g.Pkg.Pkg {
			return
		}
		for _, f := range p.Syntax {
			for _, d := range f.Decls {
				gd, ok := d.(*ast.GenDecl)
				if !ok || gd.Tok != token.VAR {
					continue
				}
				for _, sp := range gd.Specs {
					vs := sp.(*ast.ValueSpec)
					for i, n := range vs.Names {
						if n.Name == g.Name() && i < len(vs.Values) {
							if cl, ok := vs.Values[i].(*ast.CompositeLit); ok {
								lit = cl
								info = p.TypesInfo
							}
						}
					}
				}
			}
		}
	})
	if lit == nil {
		return ConstArr{}, false
	}
	if globalWritten(c.prog, g) {
		return ConstArr{}, false
	}
	var elems []T
	term := zeroOf(arrSort(k))
	for i, e := range lit.Elts {
		tv, ok := info.Types[e]
		if !ok || tv.Value == nil {
			return ConstArr{}, false
		}
		var t T
		if k == SInt {
			bi, _ := new(big.Int).SetString(constant.ToInt(tv.Value).ExactString(), 10)
			t = bigIntLit(bi)
		} else {
			t = ratLit(constRat(tv.Value))
		}
		elems = append(elems, t)
		term = c.sto(term, intLit(int64(i)), t)
	}
	c.note("package-level array " + g.Pkg.Pkg.Name() + "." + g.Name() + " is read as its initialiser: no function of the module stores to it (checked syntactically, C14.no-global-write)")
	return ConstArr{elems, term, g.Name()}, true
}
