package main

// Minimal S-expression reader for solver output (get-value answers).

import (
	"math/big"
	"strings"
)

type sx struct {
	atom string
	list []*sx
}

func (s *sx) isAtom() bool { return s.list == nil && s.atom != "" }

func (s *sx) String() string {
	if s.list == nil {
		return s.atom
	}
	var parts []string
	for _, c := range s.list {
		parts = append(parts, c.String())
	}
	return "(" + strings.Join(parts, " ") + ")"
}

func parseSexprs(src string) []*sx {
	var out []*sx
	pos := 0
	for {
		n, np := parseSx(src, pos)
		if n == nil {
			break
		}
		out = append(out, n)
		pos = np
	}
	return out
}

func parseSx(src string, pos int) (*sx, int) {
	for pos < len(src) && (src[pos] == ' ' || src[pos] == '\n' || src[pos] == '\t' || src[pos] == '\r') {
		pos++
	}
	if pos >= len(src) {
		return nil, pos
	}
	if src[pos] == '(' {
		pos++
		n := &sx{list: []*sx{}}
		for {
			for pos < len(src) && (src[pos] == ' ' || src[pos] == '\n' || src[pos] == '\t' || src[pos] == '\r') {
				pos++
			}
			if pos >= len(src) {
				return n, pos
			}
			if src[pos] == ')' {
				return n, pos + 1
			}
			c, np := parseSx(src, pos)
			if c == nil {
				return n, np
			}
			n.list = append(n.list, c)
			pos = np
		}
	}
	if src[pos] == ')' {
		return nil, pos + 1
	}
	start := pos
	if src[pos] == '|' {
		pos++
		for pos < len(src) && src[pos] != '|' {
			pos++
		}
		pos++
		return &sx{atom: src[start:pos]}, pos
	}
	for pos < len(src) && !strings.ContainsRune(" \n\t\r()", rune(src[pos])) {
		pos++
	}
	return &sx{atom: src[start:pos]}, pos
}

// ratOf evaluates a numeric value term.
func ratOf(s *sx) (*big.Rat, bool) {
	if s.isAtom() {
		a := s.atom
		if strings.HasSuffix(a, "?") {
			a = strings.TrimSuffix(a, "?")
		}
		r, ok := new(big.Rat).SetString(a)
		return r, ok
	}
	if len(s.list) == 0 {
		return nil, false
	}
	op := s.list[0].atom
	var args []*big.Rat
	for _, c := range s.list[1:] {
		r, ok := ratOf(c)
		if !ok {
			return nil, false
		}
		args = append(args, r)
	}
	switch {
	case op == "-" && len(args) == 1:
		return new(big.Rat).Neg(args[0]), true
	case op == "-" && len(args) == 2:
		return new(big.Rat).Sub(args[0], args[1]), true
	case op == "+" && len(args) == 2:
		return new(big.Rat).Add(args[0], args[1]), true
	case op == "*" && len(args) == 2:
		return new(big.Rat).Mul(args[0], args[1]), true
	case op == "/" && len(args) == 2:
		if args[1].Sign() == 0 {
			return nil, false
		}
		return new(big.Rat).Quo(args[0], args[1]), true
	case op == "to_real" && len(args) == 1:
		return args[0], true
	}
	return nil, false
}

// parseGetValue returns the value terms of a get-value answer in order.
func parseGetValue(out string) []*sx {
	i := strings.Index(out, "((")
	if i < 0 {
		return nil
	}
	xs := parseSexprs(out[i:])
	if len(xs) == 0 {
		return nil
	}
	var vals []*sx
	for _, pair := range xs[0].list {
		if len(pair.list) == 2 {
			vals = append(vals, pair.list[1])
		} else {
			vals = append(vals, &sx{atom: "?"})
		}
	}
	return vals
}
