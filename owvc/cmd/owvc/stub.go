package main

// Mechanical stub of a cgo dependency that cannot be built here (gonum hdf5:
// libhdf5 and hdf5.h are not in the sandbox). The stub is regenerated on every
// run from the module's own source: every declaration and every function
// signature is kept; what is dropped is stated exactly:
//   - `import "C"` and the cgo preamble,
//   - every function body (replaced by a panic),
//   - every C.<name> type (replaced by int) and every C.<name> constant value
//     (replaced by 0; typed variables lose their initialiser),
//   - imports that are no longer used, and _test files.
// The stub gives the io package the *types* of the library (so that io
// type-checks and its own SSA is built from its real source); the library's
// behaviour enters only through the assumed contracts listed in the evidence.

import (
	"bytes"
	"go/ast"
	"go/format"
	"go/parser"
	"go/token"
	"os"
	"path/filepath"
	"strconv"
	"strings"
)

func stubCgoPackage(dir string) (map[string][]byte, error) {
	out := map[string][]byte{}
	ents, err := os.ReadDir(dir)
	if err != nil {
		return nil, err
	}
	for _, e := range ents {
		name := e.Name()
		if e.IsDir() || !strings.HasSuffix(name, ".go") {
			continue
		}
		path := filepath.Join(dir, name)
		if strings.HasSuffix(name, "_test.go") {
			out[path] = []byte("package hdf5\n")
			continue
		}
		fset := token.NewFileSet()
		f, err := parser.ParseFile(fset, path, nil, 0)
		if err != nil {
			return nil, err
		}
		isC := func(e ast.Expr) bool {
			s, ok := e.(*ast.SelectorExpr)
			if !ok {
				return false
			}
			id, ok := s.X.(*ast.Ident)
			return ok && id.Name == "C"
		}
		mentionsC := func(n ast.Node) bool {
			found := false
			ast.Inspect(n, func(x ast.Node) bool {
				if e, ok := x.(ast.Expr); ok && isC(e) {
					found = true
				}
				return !found
			})
			return found
		}
		// function bodies
		for _, d := range f.Decls {
			if fd, ok := d.(*ast.FuncDecl); ok && fd.Body != nil {
				fd.Body = &ast.BlockStmt{List: []ast.Stmt{&ast.ExprStmt{X: &ast.CallExpr{Fun: ast.NewIdent("panic"), Args: []ast.Expr{&ast.BasicLit{Kind: token.STRING, Value: strconv.Quote("cgo stub")}}}}}}
			}
		}
		// constant and variable values that mention C
		for _, d := range f.Decls {
			gd, ok := d.(*ast.GenDecl)
			if !ok || (gd.Tok != token.CONST && gd.Tok != token.VAR) {
				continue
			}
			for _, sp := range gd.Specs {
				vs := sp.(*ast.ValueSpec)
				for i, v := range vs.Values {
					if mentionsC(v) {
						if gd.Tok == token.VAR && vs.Type != nil && !mentionsC(vs.Type) {
							vs.Values = nil
							break
						}
						vs.Values[i] = &ast.BasicLit{Kind: token.INT, Value: "0"}
					}
				}
			}
		}
		// C types
		var rewrite func(n ast.Node)
		rewrite = func(n ast.Node) {
			ast.Inspect(n, func(x ast.Node) bool {
				switch t := x.(type) {
				case *ast.Field:
					if isC(t.Type) {
						t.Type = ast.NewIdent("int")
					}
				case *ast.StarExpr:
					if isC(t.X) {
						t.X = ast.NewIdent("int")
					}
				case *ast.ArrayType:
					if isC(t.Elt) {
						t.Elt = ast.NewIdent("int")
					}
				case *ast.TypeSpec:
					if isC(t.Type) {
						t.Type = ast.NewIdent("int")
					}
				case *ast.ValueSpec:
					if t.Type != nil && isC(t.Type) {
						t.Type = ast.NewIdent("int")
					}
				case *ast.MapType:
					if isC(t.Key) {
						t.Key = ast.NewIdent("int")
					}
					if isC(t.Value) {
						t.Value = ast.NewIdent("int")
					}
				case *ast.CallExpr:
					if isC(t.Fun) {
						t.Fun = ast.NewIdent("int")
					}
				}
				return true
			})
		}
		rewrite(f)
		// imports: drop "C" and everything no longer referenced
		used := map[string]bool{}
		ast.Inspect(f, func(x ast.Node) bool {
			if s, ok := x.(*ast.SelectorExpr); ok {
				if id, ok := s.X.(*ast.Ident); ok {
					used[id.Name] = true
				}
			}
			return true
		})
		var decls []ast.Decl
		for _, d := range f.Decls {
			gd, ok := d.(*ast.GenDecl)
			if !ok || gd.Tok != token.IMPORT {
				decls = append(decls, d)
				continue
			}
			var specs []ast.Spec
			for _, sp := range gd.Specs {
				is := sp.(*ast.ImportSpec)
				p, _ := strconv.Unquote(is.Path.Value)
				if p == "C" {
					continue
				}
				nm := filepath.Base(p)
				if is.Name != nil {
					nm = is.Name.Name
				}
				if nm == "_" || used[nm] {
					specs = append(specs, sp)
				}
			}
			if len(specs) > 0 {
				gd.Specs = specs
				gd.Doc = nil
				decls = append(decls, gd)
			}
		}
		f.Decls = decls
		f.Comments = nil
		f.Doc = nil
		var buf bytes.Buffer
		if err := format.Node(&buf, fset, f); err != nil {
			return nil, err
		}
		out[path] = buf.Bytes()
	}
	return out, nil
}
