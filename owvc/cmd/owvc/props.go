package main

// Per-property configuration of the checks.

type PropSpec struct {
	ID          string
	Level       string // proof | other
	Patterns    []string
	Explanation string
	NotCovered  []string
	Assumptions []string
}

var trustedBase = []string{
	"owvc itself (VC generator, encoding of go/ssa into SMT-LIB), guarded by the must-fail self-test corpus, not proved (A-GEN)",
	"golang.org/x/tools v0.29.0 go/ssa as the semantics of Go; the Go compiler",
	"SMT solvers z3 4.8.12, z3 5.1.0, cvc5 1.0.3: unsat answers are trusted (A-SOLVER)",
	"contract files /repo/<pkg>/verif_contracts.go: top-level postconditions are transcribed from the property statements",
}

var baseAssumptions = []string{
	"A-INT: machine integers are treated as mathematical integers (no wrap-around)",
	"A-REAL: float64 is treated as mathematical reals (no rounding, NaN or Inf); replays evaluate clauses on float64 with relative tolerance 1e-9",
	"A-SLICE0: a slice received from outside the verified function (parameter, struct field, call result) starts at index 0 of its backing array; overlapping sub-slices of one array passed as different arguments are excluded",
	"A-TERMINATION: partial correctness only (loops are cut at invariants; termination is not proved)",
	"A-CALLER: preconditions of functions under contract are obligations of their callers; for callers outside the contracts they are assumptions",
}

var modelPkgs = []string{"./models/...", "./util/...", "./data", "./conv/..."}

var propSpecs = map[string]PropSpec{
	"C01": {ID: "C01", Level: "proof", Patterns: []string{"./data/...", "./util/..."},
		NotCovered: []string{"frame (cells outside the block unchanged) of ApplySlice and CopyFrom; their footprint is bounded by rank 3", "Slice with fewer extents than axes (used by the table-parameter wrappers)"}},
	"C02": {ID: "C02", Level: "proof", Patterns: []string{"./data/...", "./util/..."},
		NotCovered: []string{"ApplySlice, CopyFrom and the whole-array helpers (AddTo, ApplyFunc1, Scale) beyond rank 3 (BOUNDED: the mixed-radix successor lemma is proved per rank for ranks 1-3; extents, strides and steps are symbolic)", "Reshape of a view whose new shape has exactly one element (the row-major clause is stated for more than one element)", "whole-array helpers on two arrays that share element storage (precondition: the slices their Unroll() return are different objects)", "the bridge between the Go back-end's header and the row-major interface view for the array built by ArrayFromSlice (assumed contract)", "views with an extent of 0 (extents >= 1 are a precondition of the bulk contracts)"}},
	"C03": {ID: "C03", Level: "proof", Patterns: []string{"./data/...", "./util/..."},
		NotCovered: []string{"ApplySlice/CopyFrom beyond rank 3 (BOUNDED)", "Reshape of a C-backed view to a single-element shape (the row-major clauses are stated for more than one element)", "libopenwater.RunSingleModel (cgo entry point)"}},
	"C04": {ID: "C04", Level: "proof", Patterns: modelPkgs,
		NotCovered: []string{"InitialiseStates / FindDimensions / Description of the wrappers (the claim is about Run and ApplyParameters)", "callers of Run other than the JSON runner (cmd/ow-sim, libopenwater)", "the step from the proved wiring of every call of the kernel (inputs, states, parameters, outputs of cell i) to equality with a single-cell run uses the determinism of the kernels (C14)"}},
	"C05": {ID: "C05", Level: "other", Patterns: modelPkgs,
		Explanation: "Partial: the goroutine-per-cell execution inside every generated Run is decided by sequential contracts plus the disjoint-footprint argument for fork/join parallelism: every write of cell i's goroutine body goes to cells of states[i,.] / outputs[i,.,.] or to memory allocated by that body (SMT-discharged frame obligations), everything captured from Run is read-only in the body, inputs and parameters are never written, and Run receives once per spawned goroutine before returning (structural join check). Under these no two goroutines have conflicting accesses, so every interleaving equals the sequential cell-by-cell order; the step from disjoint footprints to race freedom is a standard meta-theorem that is not mechanised (A-SEQ). The ow-sim half (goroutine per model, asynchronous writer) is not applicable: package main of cmd/ow-sim cannot be loaded or run here and the claim is about interleavings of a protocol.",
		NotCovered: []string{"goroutine-per-model execution and the asynchronous writer in cmd/ow-sim", "the Go memory model beyond absence of conflicting accesses"}},
	"C06": {ID: "C06", Level: "proof", Patterns: modelPkgs},
	"C14": {ID: "C14", Level: "proof", Patterns: modelPkgs},
	"C08": {ID: "C08", Level: "other", Patterns: []string{"./io", "./conv/...", "./util/...", "./data"},
		Explanation: "Partial, by contracts on the real code of package io, which is loaded with a mechanical stub of its cgo dependency gonum.org/v1/hdf5 (regenerated from the module source on every run: all declarations and signatures kept; function bodies, C types and C constant values dropped; libhdf5 itself is absent from the sandbox). Decided: (1) selection arithmetic for all selections and extents - sliceSize returns exactly the number of indices start + k*step below min(stop, extent) (lemma C08.lemma-selcount-exact), makeHyperslab returns offset = start, stride = step, block = 1 and that count per selected dimension and the whole extent for nil dimensions; (2) argument wiring of every data-carrying library call - loadSubset selects exactly the hyperslab of makeHyperslab, gives the memory dataspace and the result array the shape count[.] (loop invariant over the shape rewrite), reads memory space against file selection; WriteSlice selects offset loc, stride 1, count 1, block = shape of the data and a memory space of that shape; Write creates or opens the dataset with the data's shape; createDataset creates the dataspace with the requested shape; (3) lock typestate - ghost variable hdf5lock (0 free, 1 shared, 2 exclusive): every call into gonum hdf5 on every path, including deferred Close calls, happens with the lock held, calls that create or write objects in a file (CreateFile, CreateGroup, CreateDataset*, Write, WriteSubset) with the lock held exclusively, and every exported method releases it on every return path. Not decided: anything libhdf5 does with those arguments (round trip of values, element types, that an existing dataset is left untouched), which is exactly what cannot be run or replayed here.",
		NotCovered: []string{"behaviour of libhdf5 / gonum hdf5 (round-trip of values and element types, dataset creation semantics): the library is absent; its calls are external (A-EXTERNAL, A-HDF5: a call that reports no error returns non-nil handles)", "what libhdf5 reports as the shape of an existing dataset (shapesMatch relies on the library; on the exits of openOrCreateDataset it is proved that an existing dataset with a matching shape is returned without any create or write call, and that a mismatch returns an error without any create or write call)", "error handling and nil handles (openWriteOrCreate can return a nil file without an error when the file exists but cannot be opened)", "the bodies of the four lock wrappers (trusted: sync.RWMutex)", "replay: package io cannot be built or run here; witnesses run on the two pure helpers extracted verbatim (tools/run_witness_io.sh)"}},
	"C10": {ID: "C10", Level: "proof", Patterns: modelPkgs,
		NotCovered: []string{"Sacramento: store bounds other than the per-increment capacity of the two lower-zone free-water stores, and the composition of the proved segment and increment conservation identities into a whole-run water balance (unit-hydrograph buffer, losses ssout/sarva/side and the ADIMP area are not tied together)", "GR4J: non-negativity of the unit-hydrograph buffers (the exact daily balance is proved for days whose routed ordinates are non-negative; that the buffers never go negative needs monotonicity of the S-curves, i.e. of pow, which is uninterpreted)"}},
	"C11": {ID: "C11", Level: "proof", Patterns: modelPkgs,
		NotCovered: []string{"storage routing with bias != 0 or routing power != 1 (sub-step iteration)", "storage-discharge relation within the solver tolerance on the root-finder exit of calcOutflow (FindRoot may stop unconverged after maxIterations; the relation residual is then whatever the last trial gave)"}},
	"C12": {ID: "C12", Level: "proof", Patterns: modelPkgs},
	"C13": {ID: "C13", Level: "proof", Patterns: modelPkgs},
	"C15": {ID: "C15", Level: "proof", Patterns: modelPkgs},
	"C16": {ID: "C16", Level: "proof", Patterns: modelPkgs},
	"C17": {ID: "C17", Level: "other", Patterns: []string{"./sim/...", "./io/json/...", "./data"},
		Explanation: "Partial, by contracts on the real runner code (sim/single.go, io/json/json.go): request assembly is proved exact - every parameter handed to the model is the first value of that name in the request or else the description's default, every supplied input series is row k of the input array (all values, all lengths), missing inputs are zero rows, all input series must have one length, the parameter matrix is the uniform one-column matrix - and no statement of Initialise, RunSingleModelJSON, encodeResults and JsonSafeArray can panic (index, slice, nil, division obligations; the deferred encoder runs on every return path), given the assumed interface contracts of the catalogued model (Description pure, InitialiseStates a fresh one-row matrix, Run's preconditions established by the runner). Not decided here: the text written to the output (encoding/json and fmt are external: that exactly one valid document is produced, and the strings chosen for NaN/Inf), the nesting of the interface{} tree built by JsonSafeArray beyond its length per level, and the equality of the run with a direct Run (the runner calls the same Run on the assembled arrays; C04 covers Run).",
		NotCovered: []string{"bytes produced by encoding/json and fmt (valid JSON, NaN/+Inf/-Inf strings)", "contents of the interface{} tree returned by JsonSafeArray (only the length per level)", "flat-index safety of element reads through the over-long views JsonSafeArray builds (views unchecked)", "cmd/ow-single main (flag parsing, stdin/stdout)", "what a model does with in-range parameters that its own contract does not cover (the known finding F22 is about defaults outside the documented ranges)"}},
	"C18": {ID: "C18", Level: "proof", Patterns: modelPkgs},
	"C19": {ID: "C19", Level: "proof", Patterns: modelPkgs},
	"C20": {ID: "C20", Level: "other", Patterns: modelPkgs,
		Explanation: "Partial decision by contract proofs on the real code: vapour pressure positive, wet-bulb bisection bracket invariant, depression identity, pointwise data flow per timestep, dew point rising with humidity (relational harness). The ordering claims that need properties of the transcendental formulas themselves (monotonicity of Goff-Gratch, dew point <= dry bulb, finiteness) are not decidable with uninterpreted math functions and are not covered.",
		NotCovered: []string{"saturation vapour pressure strictly increasing with temperature: only on a 0.001 degC grid (bounded check on the real code, /verif/bounded), not for all reals", "dew point <= dry bulb", "finiteness of all outputs (division by atmPressure - vapourPressure, 17.27 - F): only on the grid of the bounded check", "observed by a seeding sub-agent, not decided by any contract: at 100 % relative humidity the computed dew point exceeds the dry-bulb temperature by up to 0.0062 degC (the Goff-Gratch vapour pressure and the Magnus inverse are different approximations)"}},
}
