package main

import (
	"os/exec"
	"flag"
	"fmt"
	"os"
	"sort"
	"strings"
	"time"

	"golang.org/x/tools/go/packages"
	"golang.org/x/tools/go/ssa"
	"golang.org/x/tools/go/ssa/ssautil"
)

var repoRoot = "/repo"
var verifRoot = "/verif"

type Loaded struct {
	prog  *ssa.Program
	pkgs  []*ssa.Package
	funcs map[string]*ssa.Function
	cs    *Contracts
	loadS float64
}

func loadRepo(patterns []string) *Loaded {
	t0 := time.Now()
	cfg := &packages.Config{Mode: packages.LoadAllSyntax, Dir: repoRoot, BuildFlags: []string{"-tags=verif"},
		Env: append(os.Environ(), "GOFLAGS=-mod=mod", "GOPROXY=off", "GOSUMDB=off", "GOTOOLCHAIN=local")}
	for _, pt := range patterns {
		if pt == "./io" || strings.HasPrefix(pt, "./io/...") || pt == "./io/..." {
			// the io package depends on a cgo library that cannot be built here:
			// its dependency is replaced by a mechanical stub (see stub.go)
			cmd := exec.Command("go", "list", "-m", "-f", "{{.Dir}}", "gonum.org/v1/hdf5")
			cmd.Dir = repoRoot
			cmd.Env = cfg.Env
			outb, lerr := cmd.Output()
			if lerr != nil {
				fatalf("cannot locate gonum.org/v1/hdf5: %v", lerr)
			}
			ov, serr := stubCgoPackage(strings.TrimSpace(string(outb)))
			if serr != nil {
				fatalf("stub of gonum.org/v1/hdf5: %v", serr)
			}
			cfg.Overlay = ov
			// packages of the module cache are normally read through go's module
			// index, which ignores overlays
			cfg.Env = append(cfg.Env, "GODEBUG=goindex=0")
			break
		}
	}
	pkgs, err := packages.Load(cfg, patterns...)
	if err != nil {
		fatalf("load: %v", err)
	}
	nerr := 0
	packages.Visit(pkgs, nil, func(p *packages.Package) {
		if strings.HasPrefix(p.PkgPath, modulePrefix) {
			for _, e := range p.Errors {
				fmt.Fprintln(os.Stderr, "load error:", e)
				nerr++
			}
		}
	})
	if os.Getenv("OWVC_DEBUG") != "" {
		packages.Visit(pkgs, nil, func(p *packages.Package) {
			if p.IllTyped || len(p.Errors) > 0 {
				fmt.Fprintln(os.Stderr, "illtyped:", p.PkgPath, len(p.Errors))
				for i, e := range p.Errors {
					if i < 5 {
						fmt.Fprintln(os.Stderr, "   ", e)
					}
				}
			}
		})
	}
	if nerr > 0 {
		fatalf("packages do not load")
	}
	loadedPkgs = pkgs
	prog, spkgs := ssautil.AllPackages(pkgs, ssa.GlobalDebug)
	prog.Build()
	dirs := map[string]string{}
	packages.Visit(pkgs, nil, func(p *packages.Package) {
		if strings.HasPrefix(p.PkgPath, modulePrefix) {
			rel := strings.TrimPrefix(strings.TrimPrefix(p.PkgPath, modulePrefix), "/")
			dirs[p.PkgPath] = repoRoot + "/" + rel
		}
	})
	var all []*ssa.Package
	for _, p := range prog.AllPackages() {
		if strings.HasPrefix(p.Pkg.Path(), modulePrefix) {
			all = append(all, p)
		}
	}
	_ = spkgs
	l := &Loaded{prog: prog, pkgs: all}
	l.funcs = findFunctions(prog, all)
	l.cs = loadContracts(dirs)
	l.loadS = time.Since(t0).Seconds()
	return l
}

func main() {
	if len(os.Args) < 2 {
		fmt.Fprintln(os.Stderr, "usage: owvc check <id> [--tier quick|thorough] | vc [-f regexp] <patterns> | replay <file>")
		os.Exit(2)
	}
	if r := os.Getenv("OWVC_REPO"); r != "" {
		repoRoot = r // developer override (scratch copies); the registered checks never set it
	}
	switch os.Args[1] {
	case "vc":
		cmdVC(os.Args[2:])
	case "check":
		cmdCheck(os.Args[2:])
	case "replay":
		cmdReplay(os.Args[2:])
	case "locals":
		cmdLocals(os.Args[2:])
	default:
		fmt.Fprintln(os.Stderr, "unknown command", os.Args[1])
		os.Exit(2)
	}
}

// cmdVC: developer command — verify every function under contract in the
// given packages and print one line per obligation.
func cmdVC(args []string) {
	fs := flag.NewFlagSet("vc", flag.ExitOnError)
	filter := fs.String("f", "", "only functions whose key contains this string")
	timeout := fs.Int("t", 10, "solver timeout (s)")
	verbose := fs.Bool("v", false, "print models")
	only := fs.String("o", "", "only obligations whose name contains this")
	fs.Parse(args)
	allSolvers = true
	l := loadRepo(fs.Args())
	fmt.Printf("loaded in %.1fs, %d functions, %d contracts\n", l.loadS, len(l.funcs), len(l.cs.Funcs))
	if irep := genInducts(l.prog, l.cs, ""); len(irep.Obls) > 0 || irep.Err != "" {
		if irep.Err != "" {
			fmt.Println("INDUCT ERROR", irep.Err)
		}
		for _, r := range dischargeAll(irep.Obls, verifRoot+"/out/vc", *timeout) {
			fmt.Printf("   induct %-10s %-50s %s %dms %v\n", r.Status, r.O.Label, r.Solver, r.Ms, r.AllStat)
		}
	}
	if lrep := genLemmas(l.prog, l.cs, ""); len(lrep.Obls) > 0 || lrep.Err != "" {
		if lrep.Err != "" {
			fmt.Println("LEMMA ERROR", lrep.Err)
		}
		for _, r := range dischargeAll(lrep.Obls, verifRoot+"/out/vc", *timeout) {
			fmt.Printf("   lemma %-10s %-50s %s %dms %v\n", r.Status, r.O.Label, r.Solver, r.Ms, r.AllStat)
		}
	}
	keys := sortedKeys(l.cs.Funcs)
	for _, k := range keys {
		if *filter != "" && !strings.Contains(k, *filter) {
			continue
		}
		fc := l.cs.Funcs[k]
		if fc.Trusted != "" {
			continue
		}
		fn := l.funcs[contractFuncKey(fc)]
		if fn == nil {
			fmt.Printf("MISSING %s\n", k)
			continue
		}
		rep := genFunction(l.prog, l.cs, fn, fc)
		if rep.Err != "" {
			fmt.Printf("ERROR %s: %s\n", k, rep.Err)
			continue
		}
		var obls []*Obligation
		for _, o := range rep.Obls {
			if *only == "" || strings.Contains(o.Name, *only) {
				obls = append(obls, o)
			}
		}
		res := dischargeAll(obls, verifRoot+"/out/vc", *timeout)
		sortResults(res)
		nd := 0
		for _, r := range res {
			if r.Status == "discharged" {
				nd++
			}
		}
		fmt.Printf("== %s: %d/%d discharged (gen %dms)\n", k, nd, len(res), rep.GenMs)
		for _, e := range rep.FrameErrs {
			fmt.Printf("   FRAME %s\n", e)
		}
		for _, r := range res {
			if r.Status != "discharged" || *verbose {
				fmt.Printf("   %-10s %-60s %s %dms %v  [%s] %s\n", r.Status, r.O.Name, r.Solver, r.Ms, r.AllStat, r.O.Pos, r.O.Text)
				if r.Model != nil {
					ks := sortedKeys(r.Model)
					sort.Strings(ks)
					for _, k := range ks {
						fmt.Printf("        %s = %s\n", k, r.Model[k])
					}
				}
				if r.Status == "undecided" && strings.Contains(r.Output, "error") {
					fmt.Printf("        %s\n", firstLines(r.Output, 3))
				}
			}
		}
		if *verbose {
			for _, n := range rep.Notes {
				fmt.Printf("   note: %s\n", n)
			}
		}
	}
}

func firstLines(s string, n int) string {
	ls := strings.Split(s, "\n")
	if len(ls) > n {
		ls = ls[:n]
	}
	return strings.Join(ls, " | ")
}


// cmdLocals: maintenance command - writes/updates the "locals" line of every
// function contract in the contract files of the given packages (the locals the
// function declares, in source order; see collectNames).
func cmdLocals(args []string) {
	l := loadRepo(args)
	type site struct {
		file string
		line int
	}
	want := map[site]string{}
	wantSig := map[site]string{}
	for _, k := range sortedKeys(l.cs.Funcs) {
		fc := l.cs.Funcs[k]
		fn := l.funcs[contractFuncKey(fc)]
		if fn == nil || fc.Trusted != "" {
			continue
		}
		loc := declaredLocals(fn)
		st := site{fc.File, fc.Line}
		if _, ok := want[st]; !ok && len(loc) > 0 {
			want[st] = strings.Join(loc, ", ")
		}
		if ls := loopStmts(fn); len(ls) > 1 {
			if _, ok := wantSig[st]; !ok {
				wantSig[st] = strings.Join(loopSigs(fn.Prog.Fset, ls), " ")
			}
		}
	}
	byFile := map[string][]site{}
	allSites := map[site]bool{}
	for st := range want {
		allSites[st] = true
	}
	for st := range wantSig {
		allSites[st] = true
	}
	for st := range allSites {
		byFile[st.file] = append(byFile[st.file], st)
	}
	for file, sites := range byFile {
		b, err := os.ReadFile(file)
		if err != nil {
			fatalf("%v", err)
		}
		lines := strings.Split(string(b), "\n")
		sort.Slice(sites, func(i, j int) bool { return sites[i].line > sites[j].line })
		n := 0
		for _, st := range sites {
			idx := st.line - 1 // the "//@ func" line (1-based -> 0-based)
			if idx < 0 || idx >= len(lines) || !strings.Contains(lines[idx], "func ") {
				fmt.Printf("%s:%d: not a func line, skipped\n", file, st.line)
				continue
			}
			// drop the existing locals / loopsigs lines of this block, then write the current ones
			for idx+1 < len(lines) && (strings.HasPrefix(strings.TrimSpace(lines[idx+1]), "//@   locals ") || strings.HasPrefix(strings.TrimSpace(lines[idx+1]), "//@   loopsigs ")) {
				lines = append(lines[:idx+1], lines[idx+2:]...)
			}
			var ins []string
			if w := want[st]; w != "" {
				ins = append(ins, "//@   locals "+w)
			}
			if w := wantSig[st]; w != "" {
				ins = append(ins, "//@   loopsigs "+w)
			}
			lines = append(lines[:idx+1], append(ins, lines[idx+1:]...)...)
			n += len(ins)
		}
		if n > 0 {
			os.WriteFile(file, []byte(strings.Join(lines, "\n")), 0o644)
		}
		fmt.Printf("%s: %d locals lines written\n", file, n)
	}
}
