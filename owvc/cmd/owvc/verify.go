package main

// Top level of the verification of one function under contract, and the
// discharge of obligations.

import (
	"runtime"
	"go/ast"
	"fmt"
	"go/token"
	"regexp"
	"go/types"
	"os"
	"path/filepath"
	"sort"
	"strings"
	"sync"
	"time"

	"golang.org/x/tools/go/ssa"
)

type OblResult struct {
	O       *Obligation
	Status  string // discharged | failed | undecided | error
	Solver  string
	Ms      int64
	Model   map[string]string
	Output  string
	Query   string
	AllStat map[string]string
	Second  int
	Clash   string
}

type FuncReport struct {
	Func      string
	Key       string
	Contract  *FuncContract
	Obls      []*Obligation
	Err       string // generator error (function outside the subset, ...)
	Notes     []string
	FrameErrs []string
	GenMs     int64
	Props     map[string]bool
	Safety    map[string]bool
}

// genFunction generates all obligations of one function under contract.
func genFunction(prog *ssa.Program, cs *Contracts, fn *ssa.Function, fc *FuncContract) (rep *FuncReport) {
	t0 := time.Now()
	c := newCtx(prog, cs)
	c.top = fn
	c.fc = fc
	c.locMode = fc.LocModel
	rep = &FuncReport{Func: fn.String(), Key: funcKey(fn), Contract: fc, Props: map[string]bool{}, Safety: map[string]bool{}}
	for _, cl := range fc.Clauses {
		for _, p := range cl.Props {
			rep.Props[p] = true
		}
	}
	for _, s := range fc.Safety {
		rep.Safety[s] = true
		rep.Props[s] = true
	}
	defer func() {
		rep.GenMs = time.Since(t0).Milliseconds()
		rep.Notes = sortedKeys(c.notes)
		if r := recover(); r != nil {
			if e, ok := r.(vcError); ok {
				rep.Err = e.msg
				rep.Obls = nil
				return
			}
			panic(r)
		}
	}()
	st0 := &State{reach: tTrue, heaps: map[string]T{}, cells: map[string]Val{}}
	st0.alloc = c.fresh("alloc0", SInt)
	c.alloc0 = st0.alloc
	c.emit(fmt.Sprintf("(assert (>= %s 1))", st0.alloc.S))
	if c.locMode {
		// the storage of an array that exists at entry is an object that exists at entry
		c.locDecls()
		c.emit(fmt.Sprintf("(assert (forall ((q_x_0 Int)) (! (=> (and (< 0 q_x_0) (< q_x_0 %s)) (and (< 0 (nd_root q_x_0)) (< (nd_root q_x_0) %s))) :pattern ((nd_root q_x_0)))))", st0.alloc.S, st0.alloc.S))
	}
	names := paramNames(fn)
	if len(fc.Params) > 0 {
		if len(fc.Params) != len(fn.Params) {
			panic(vcErr("contract of %s names %d parameters, the function has %d", fn, len(fc.Params), len(fn.Params)))
		}
		names = fc.Params
	}
	env0 := map[string]Val{}
	var params []Val
	for i, p := range fn.Params {
		v := c.freshVal(st0, p.Name(), p.Type())
		if sv, ok := v.(SliceV); ok && fc.NoAlias {
			// With pairwise distinct backing arrays the position of a slice inside
			// its backing array is unobservable (Go indexes relative to the slice):
			// offset 0 without loss of generality. Keeps quantifier patterns free
			// of arithmetic.
			sv.Off = intLit(0)
			v = sv
		}
		params = append(params, v)
		env0[names[i]] = v
		c.recordParam(p.Name(), v)
		if sp, ok := v.(StructPtr); ok && !contains(fc.Nullable, names[i]) {
			c.emit(fmt.Sprintf("(assert (> %s 0))", sp.Ref.S))
		}
		if c.paramIDs == nil {
			c.paramIDs = map[string]bool{}
		}
		switch pv := v.(type) {
		case SliceV:
			c.paramIDs[pv.ID.S] = true
		case StructPtr:
			c.paramIDs[pv.Ref.S] = true // below the entry allocation counter (asserted by freshVal)
		case IfaceV:
			c.paramIDs[pv.Ref.S] = true
		}
		if iv, ok := v.(IfaceV); ok && isNDIface(p.Type()) && !contains(fc.Nullable, names[i]) {
			c.emit(fmt.Sprintf("(assert (> %s 0))", iv.Ref.S))
		}
	}
	for _, np := range fc.NaNParams {
		t, ok := env0[np].(T)
		if !ok {
			panic(vcErr("nan parameter %s is not a scalar", np))
		}
		c.nanSyms = append(c.nanSyms, t.S)
		c.note("NaN mode: parameter " + np + " is NaN; every ordered comparison involving it is false (IEEE 754), arithmetic propagates it")
	}
	for _, g := range fc.Ghosts {
		var v Val
		switch g[1] {
		case "int":
			v = c.fresh("g_"+g[0], SInt)
		case "real":
			v = c.fresh("g_"+g[0], SReal)
		case "bool":
			v = c.fresh("g_"+g[0], SBool)
		case "[]int", "[]real":
			k := SInt
			if g[1] == "[]real" {
				k = SReal
			}
			v = SeqV{c.fresh("g_"+g[0], arrSort(k)), intLit(0), c.fresh("g_"+g[0]+"_len", SInt)}
		default:
			panic(vcErr("ghost type %s unsupported", g[1]))
		}
		env0[g[0]] = v
	}
	// free variables of a closure verified on its own: unconstrained cells
	var free []Val
	for _, fv := range fn.FreeVars {
		et := fv.Type().(*types.Pointer).Elem()
		c.nsym++
		key := fmt.Sprintf("%s!%d", fv.Name(), c.nsym)
		c.cellTypes[key] = et
		cv := c.freshVal(st0, fv.Name(), et)
		st0.cells[key] = cv
		free = append(free, CellPtr{key, et})
		env0[fv.Name()] = cv
		c.recordParam(fv.Name(), cv)
	}
	if fc.NoAlias {
		var refs, ids []T
		for _, v := range params {
			switch x := v.(type) {
			case IfaceV:
				refs = append(refs, x.Ref)
			case SliceV:
				ids = append(ids, x.ID)
			}
		}
		if c.distinctGrp == nil {
			c.distinctGrp = map[string]int{}
		}
		if len(refs) > 1 {
			c.emit("(assert " + app(SBool, "distinct", refs...).S + ")")
			for _, r := range refs {
				c.distinctGrp[r.S] = 1
			}
		}
		if len(ids) > 1 {
			c.emit("(assert " + app(SBool, "distinct", ids...).S + ")")
			for _, r := range ids {
				c.distinctGrp[r.S] = 2
			}
		}
		c.note("A-NOALIAS: distinct array / slice arguments of " + fn.String() + " do not overlap")
	}
	fr := c.newFrame(fn, fc, params, free, true)
	fr.old = st0.clone()
	fr.env0 = env0
	c.topFrame = fr
	entryCut := c.nsym
	// objects allocated from here on are fresh: their ids mention an alloc symbol
	// created after entryCut
	a1 := c.fresh("alloc", SInt)
	c.emit(fmt.Sprintf("(assert (= %s %s))", a1.S, st0.alloc.S))
	st0.alloc = a1
	// requires
	envR := &Env{c: c, fr: fr, st: st0, old: fr.old, names: env0, oldNames: env0}
	for _, cl := range fc.Clauses {
		if cl.Kind == "requires" {
			c.assume(tTrue, c.evalBool(envR, cl.Expr))
			c.recordDistinctIDs(envR, cl.Expr)
		}
	}
	// conclusions of the induction lemmas (their base and step cases are separate obligations)
	for _, ind := range cs.Inducts {
		if len(fc.UseLemmas) > 0 && contains(fc.UseLemmas, ind.Label) {
			c.emit("(assert " + c.inductFormula(ind, "concl").S + ")")
			c.note("lemma by induction " + ind.Label + " (base and step are discharged as separate obligations; the induction principle itself is meta-level)")
		}
	}
	// explicit ground instances of induction lemmas: "instantiate LABEL(e1, ..., en)"
	for _, inst := range fc.Instantiate {
		c.assume(tTrue, c.lemmaInstance(envR, inst, fc.File, fc.Line))
	}
	// global axioms
	for _, ax := range cs.Axioms {
		c.assume(tTrue, c.evalBool(&Env{c: c, st: st0, names: map[string]Val{}}, ax.Expr))
		c.note("axiom " + ax.Label + ": " + ax.Src)
	}
	o := c.oblige(st0, "cover", "requires-sat", nil, tTrue, fn.Pos(), "the precondition is satisfiable (vacuity guard)")
	o.ExpectSat = true
	c.writeLog = nil
	if fc.HasAssigns {
		c.setupFrame(fr, envR, entryCut, fr.old.alloc)
	}
	if fc.StructuralOnly {
		// only the syntactic frame obligations: the body is outside the subset
		// (or too large) for the symbolic executor
		c.note("only the structural (frame) obligations of " + fn.String() + " are generated; its arithmetic is not under contract")
		fr.structuralChecks()
		rep.Obls = c.obls
		return rep
	}
	rst, vals := fr.run(st0)
	for _, cl := range fc.Clauses {
		if cl.Kind != "assertat" && cl.Kind != "atinst" {
			continue
		}
		fired := false
		for k := range fr.assertFired {
			if strings.HasPrefix(k, fmt.Sprintf("%p|", cl)) {
				fired = true
			}
		}
		if !fired {
			panic(vcErr("assert at %q: no executed statement of the function matches the anchor", cl.Anchor))
		}
	}
	fr.structuralChecks()
	if rst != nil {
		envE := &Env{c: c, fr: fr, st: rst, old: fr.old, names: copyMap(env0), oldNames: env0}
		// locals (e.g. closures) may be named in postconditions: resolved at the
		// last return of the function
		for bi := len(fn.Blocks) - 1; bi >= 0; bi-- {
			if _, ok := fn.Blocks[bi].Instrs[len(fn.Blocks[bi].Instrs)-1].(*ssa.Return); ok {
				envE.blk = fn.Blocks[bi]
				envE.atLatch = true
				envE.namesFirst = true
				break
			}
		}
		rs := fn.Signature.Results()
		for i := 0; i < rs.Len(); i++ {
			envE.names[fmt.Sprintf("r%d", i)] = vals[i]
			if i < len(fc.Results) {
				envE.names[fc.Results[i]] = vals[i]
			} else if n := rs.At(i).Name(); n != "" && n != "_" {
				if _, clash := envE.names[n]; !clash {
					envE.names[n] = vals[i]
				}
			}
			if rs.Len() == 1 {
				envE.names["result"] = vals[i]
			}
		}
		for _, cl := range fc.Clauses {
			if cl.Kind == "exitinst" {
				c.assume(rst.reach, c.lemmaInstance(envE, cl.Src, cl.File, cl.Line))
			}
		}
		for _, cl := range fc.Clauses {
			if cl.Kind == "canary" {
				o := c.oblige(rst, "canary", cl.Label, cl.Props, c.evalBool(envE, cl.Expr), fn.Pos(), "canary (a false postcondition that must not be provable): "+cl.Src)
				o.Canary = true
			}
			if cl.Kind == "ensures" {
				o := c.oblige(rst, "post", cl.Label, cl.Props, c.evalBool(envE, cl.Expr), fn.Pos(), "postcondition: "+cl.Src)
				if vals, plan := c.postReplayValues(fr, fr.old, "post"); plan != nil {
					plan.Clause = cl
					if len(fc.Params) > 0 {
						plan.Names = fc.Params
					}
					o.Values = vals
					o.Replay = plan
				}
				if fc.ChainEnsures {
					// proved as its own obligation; later postconditions may build on it
					c.assume(rst.reach, o.Goal)
				}
			}
		}
		for i := 0; i < rs.Len(); i++ {
			isFresh := (i < len(fc.Results) && contains(fc.Fresh, fc.Results[i])) || contains(fc.Fresh, fmt.Sprintf("r%d", i))
			if !isFresh {
				continue
			}
			var idT T
			switch x := vals[i].(type) {
			case SliceV:
				idT = x.ID
			case StructPtr:
				idT = x.Ref
			case IfaceV:
				idT = x.Ref
			}
			// a fresh object has an id at or above the allocation counter at entry
			c.oblige(rst, "frame", "fresh-result", nil, app(SBool, ">=", idT, fr.old.alloc), fn.Pos(), fmt.Sprintf("result %d is a newly allocated object", i))
		}
		oc := c.oblige(rst, "cover", "exit-reachable", nil, tTrue, fn.Pos(), "a normal return is reachable under the precondition (vacuity guard)")
		oc.ExpectSat = true
	} else {
		hasEns := false
		for _, cl := range fc.Clauses {
			if cl.Kind == "ensures" {
				hasEns = true
			}
		}
		if hasEns {
			panic(vcErr("no return is reachable in %s", fn))
		}
	}
	// frame: whole-heap writes (loop havoc of objects that cannot be named) are
	// reported here; keyed writes are SMT obligations generated at the write
	if fc.HasAssigns {
		for _, w := range c.writeLog {
			if w.heap != "" && w.key == nil && !c.frameAll && !strings.HasPrefix(w.heap, "LOC.") {
				msg := "whole heap " + w.heap + " may be written in a loop (written objects cannot be named at the loop head)"
				dup := false
				for _, e := range rep.FrameErrs {
					if e == msg {
						dup = true
					}
				}
				if !dup {
					rep.FrameErrs = append(rep.FrameErrs, msg)
				}
			}
		}
	}
	rep.Obls = c.obls
	return rep
}

func (c *Ctx) recordParam(name string, v Val) {
	switch x := v.(type) {
	case T:
		if !x.K.isArr() {
			c.paramVals = append(c.paramVals, namedTerm{"p/" + name, x})
		}
	case SliceV:
		c.paramVals = append(c.paramVals, namedTerm{"len/" + name, x.Len})
	case IfaceV:
		c.paramVals = append(c.paramVals, namedTerm{"ref/" + name, x.Ref})
	}
}

// checkFrame compares the write log with the assigns clause.
func (c *Ctx) checkFrame(fr *Frame, env *Env, entryCut int) []string {
	allowed := map[string]bool{} // heap|key
	all := false
	st := &State{heaps: map[string]T{}, cells: map[string]Val{}, alloc: intLit(0), reach: tTrue}
	// evaluate assigns targets into (heap,key) pairs by replaying havocTarget on a scratch log
	saveLog := c.writeLog
	snap := c.snapshot()
	c.writeLog = nil
	for _, a := range c.fc.Assigns {
		if strings.TrimSpace(a) == "*" {
			all = true
			continue
		}
		e2 := *env
		e2.st = st
		fr.havocTarget(&e2, st, a)
	}
	for _, w := range c.writeLog {
		if w.key != nil {
			allowed[w.heap+"|"+w.key.S] = true
		}
	}
	c.restore(snap)
	c.writeLog = saveLog
	if all {
		return nil
	}
	var errs []string
	seen := map[string]bool{}
	for _, w := range c.writeLog {
		if w.heap == "" {
			continue
		}
		var msg string
		if w.key == nil {
			msg = "whole heap " + w.heap + " may be written"
		} else {
			switch classifyKey(w.key.S, entryCut) {
			case 1:
				continue // fresh object
			}
			if w.key.S == "0" {
				continue // cells of a nil array: nothing there
			}
			if allowed[w.heap+"|"+w.key.S] {
				continue
			}
			msg = fmt.Sprintf("write to %s[%s] is not covered by the assigns clause", w.heap, w.key.S)
		}
		if !seen[msg] {
			seen[msg] = true
			errs = append(errs, msg)
		}
	}
	return errs
}

// ------------------------------------------------------------------
// discharge

func (o *Obligation) query() string { return o.queryVariant(false) }

// constRecips replaces every reciprocal (recip Y) by one constant per distinct
// divisor term Y (Ackermann-style, without the congruence axioms: fewer
// assumptions, so only unsat answers are meaningful). Quotients then are plain
// products of variables, which the non-linear procedures normalise well.
func constRecips(q string) string {
	keys := map[string]string{}
	var order []string
	name := func(y *sx) string {
		k := y.String()
		if n, ok := keys[k]; ok {
			return n
		}
		n := fmt.Sprintf("recipc_%d", len(keys))
		keys[k] = n
		order = append(order, n)
		return n
	}
	var rw func(n *sx) *sx
	rw = func(n *sx) *sx {
		if n.list == nil {
			return n
		}
		if len(n.list) == 3 && n.list[0].atom == "rdiv" {
			return &sx{list: []*sx{{atom: "*"}, rw(n.list[1]), {atom: name(n.list[2])}}}
		}
		if len(n.list) == 2 && n.list[0].atom == "recip" {
			return &sx{atom: name(n.list[1])}
		}
		out := &sx{list: make([]*sx, len(n.list))}
		for i, c := range n.list {
			out.list[i] = rw(c)
		}
		return out
	}
	var body strings.Builder
	for _, l := range strings.Split(q, "\n") {
		if strings.HasPrefix(l, "(declare-fun recip ") || strings.HasPrefix(l, "(define-fun rdiv ") || strings.TrimSpace(l) == "" {
			continue
		}
		if !strings.Contains(l, "rdiv") && !strings.Contains(l, "recip") {
			body.WriteString(l + "\n")
			continue
		}
		for _, n := range parseSexprs(l) {
			body.WriteString(rw(n).String() + "\n")
		}
	}
	var decl strings.Builder
	for _, n := range order {
		decl.WriteString("(declare-const " + n + " Real)\n")
	}
	// declarations must precede their first use: put them first
	return decl.String() + body.String()
}

// interpretedDiv turns the reciprocal encoding back into real division.
func interpretedDiv(q string) string {
	q = strings.Replace(q, recipUF, recipDef, 1)
	var b strings.Builder
	for _, l := range strings.Split(q, "\n") {
		if strings.Contains(l, ":named recipax") {
			continue
		}
		b.WriteString(l)
		b.WriteString("\n")
	}
	return b.String()
}

// queryVariant(true) drops every quantified assumption: fewer assumptions, so
// unsat is still a proof, and the query is quantifier-free for the solver's
// non-linear arithmetic procedures. Its sat answers mean nothing.
func (o *Obligation) queryVariant(dropQuantified bool) string {
	var b strings.Builder
	b.WriteString("(set-option :produce-models true)\n")
	b.WriteString(goDivPrelude)
	b.WriteString(mulDef)
	b.WriteString(recipUF)
	for _, l := range o.ctx.lines[:o.Prefix] {
		if dropQuantified && strings.HasPrefix(l, "(assert") && (strings.Contains(l, "(forall ") || strings.Contains(l, "(exists ")) {
			continue
		}
		b.WriteString(l)
		b.WriteString("\n")
	}
	b.WriteString("(assert " + o.Reach.S + ")\n")
	if o.ExpectSat {
		b.WriteString("(assert " + o.Goal.S + ")\n")
	} else {
		b.WriteString("(assert (not " + o.Goal.S + "))\n")
	}
	b.WriteString("(check-sat)\n")
	if len(o.Values) > 0 && !o.ExpectSat {
		b.WriteString("(get-value (")
		for _, v := range o.Values {
			b.WriteString(v.Term.S + " ")
		}
		b.WriteString("))\n")
	}
	return b.String()
}


// allSolvers: race all three solvers (set for the retry pass and by the developer command)
var allSolvers bool

// twoSolverFirstPass: measured and rejected - z3 4.8.12 is the only solver that decides some
// of the quantified index obligations quickly, so all three race from the start
const twoSolverFirstPass = false

func discharge(o *Obligation, outDir string, timeoutS int) *OblResult {
	r := &OblResult{O: o}
	if o.Structural {
		r.Solver = "frame-checker"
		r.Status = "discharged"
		if o.Goal.S != "true" {
			r.Status = "failed"
		}
		return r
	}
	if o.Goal.S == "true" && !o.ExpectSat {
		r.Status = "discharged"
		r.Solver = "trivial"
		return r
	}
	q := o.query()
	r.Query = q
	if o.ExpectSat {
		// vacuity covers: two solvers are enough (a cover that cannot be decided costs its full time limit)
		coverSolvers := []string{"z3-5.1.0", "cvc5-1.0.3"}
		if thoroughMode {
			coverSolvers = nil // all three
		}
		sr := solveOn(outDir, o.Name, []queryVariant{{"", q, true}}, timeoutS, coverSolvers)
		r.Solver, r.Ms, r.Output, r.AllStat = sr.Solver, sr.Ms, sr.Output, sr.All
		switch sr.Status {
		case "sat":
			r.Status = "discharged"
		case "unsat":
			r.Status = "failed"
		default:
			r.Status = "undecided"
		}
		return r
	}
	if o.Canary {
		sr := solve(outDir, o.Name, []queryVariant{{"", q, true}}, timeoutS)
		r.Solver, r.Ms, r.Output, r.AllStat = sr.Solver, sr.Ms, sr.Output, sr.All
		if sr.Status == "unsat" {
			r.Status = "failed"
			r.Output = "the canary clause was PROVED: the obligations of this function are vacuous (contradictory assumptions) or the generator is unsound\n" + r.Output
		} else {
			r.Status = "discharged"
		}
		return r
	}
	variants := []queryVariant{{"", q, true}}
	if !o.ExpectSat && !strings.Contains(o.Goal.S, "(forall ") && !strings.Contains(o.Goal.S, "(exists ") {
		if qf := o.queryVariant(true); len(qf) != len(q) {
			variants = append(variants, queryVariant{"qf", qf, false})
			if strings.Contains(qf, "(rdiv ") {
				variants = append(variants, queryVariant{"qf-div", interpretedDiv(qf), false})
				variants = append(variants, queryVariant{"qf-rc", constRecips(qf), false})
			}
		}
	}
	if strings.Contains(q, "(rdiv ") {
		variants = append(variants, queryVariant{"div", interpretedDiv(q), true})
	}
	if !o.ExpectSat && strings.Contains(q, "(rmulx ") {
		// products as an uninterpreted function: fewer facts, unsat still valid
		variants = append(variants, queryVariant{"ufmul", strings.Replace(q, mulDef, mulUF, 1), false})
	}
	// first pass: the two solvers that decide almost everything; the retry pass (and the
	// thorough tier) races all three
	var firstPass []string
	if twoSolverFirstPass && !allSolvers && !thoroughMode {
		firstPass = []string{"z3-5.1.0", "cvc5-1.0.3"}
	}
	sr := solveOn(outDir, o.Name, variants, timeoutS, firstPass)
	r.Solver, r.Ms, r.Output, r.AllStat = sr.Solver, sr.Ms, sr.Output, sr.All
	r.Second, r.Clash = sr.Second, sr.Clash
	if sr.Clash != "" && sr.Status == "unsat" {
		// two solvers contradict each other on the full query: the obligation is not counted as discharged
		sr.Status = "unknown"
		r.Output = "solvers disagree: " + sr.Solver + ":unsat vs " + sr.Clash + "\n" + r.Output
	}
	switch {
	case o.ExpectSat && sr.Status == "sat":
		r.Status = "discharged"
	case o.ExpectSat && sr.Status == "unsat":
		r.Status = "failed"
	case !o.ExpectSat && sr.Status == "unsat":
		r.Status = "discharged"
	case !o.ExpectSat && sr.Status == "sat":
		r.Status = "failed"
		// prefer a model with short arrays (replayable): re-ask with length bounds
		var bounds, nonEmpty []string
		for _, v := range o.Values {
			if (strings.HasPrefix(v.Name, "nd/") || strings.HasPrefix(v.Name, "sl/")) && strings.HasSuffix(v.Name, "/len") {
				bounds = append(bounds, fmt.Sprintf("(assert (<= %s 6))", v.Term.S))
				nonEmpty = append(nonEmpty, fmt.Sprintf("(assert (>= %s 1))", v.Term.S))
			}
		}
		if len(bounds) > 0 {
			for _, extra := range [][]string{append(append([]string{}, bounds...), nonEmpty...), bounds} {
				qb := strings.Replace(q, "(check-sat)", strings.Join(extra, "\n")+"\n(check-sat)", 1)
				if sb := solve(outDir, o.Name+".short", []queryVariant{{"", qb, true}}, timeoutS); sb.Status == "sat" {
					sr = sb
					r.Solver, r.Output = sb.Solver, sb.Output
					break
				}
			}
		}
		r.Model = map[string]string{}
		if vals := parseGetValue(sr.Output); len(vals) == len(o.Values) {
			for i, v := range o.Values {
				if rv, ok := ratOf(vals[i]); ok {
					if rv.IsInt() {
						r.Model[v.Name] = rv.Num().String()
					} else {
						f, _ := rv.Float64()
						r.Model[v.Name] = fmt.Sprintf("%s (~%g)", rv.RatString(), f)
					}
				} else {
					r.Model[v.Name] = vals[i].String()
				}
			}
		}
	default:
		r.Status = "undecided"
		if o.ExpectSat {
			// a cover query that no solver decides is not evidence of vacuity
			r.Status = "undecided"
		}
	}
	return r
}

// oblSem bounds the number of obligations in flight (not the number of solver
// processes): all solvers and variants of one obligation start together, so the
// solver that decides it fastest runs at once and its answer cancels the others.
var oblSem = make(chan struct{}, maxInt(2, runtime.NumCPU()*5/8))

func dischargeAll(obls []*Obligation, outDir string, timeoutS int) []*OblResult {
	res := make([]*OblResult, len(obls))
	var wg sync.WaitGroup
	for i, o := range obls {
		wg.Add(1)
		go func(i int, o *Obligation) {
			defer wg.Done()
			oblSem <- struct{}{}
			defer func() { <-oblSem }()
			res[i] = discharge(o, outDir, timeoutS)
		}(i, o)
	}
	wg.Wait()
	return res
}

// ------------------------------------------------------------------

func findFunctions(prog *ssa.Program, pkgs []*ssa.Package) map[string]*ssa.Function {
	out := map[string]*ssa.Function{}
	var visit func(fn *ssa.Function)
	visit = func(fn *ssa.Function) {
		if fn == nil || fn.Blocks == nil {
			return
		}
		out[funcKey(fn)] = fn
		for _, a := range fn.AnonFuncs {
			visit(a)
		}
	}
	for _, p := range pkgs {
		if p == nil {
			continue
		}
		for _, m := range p.Members {
			switch x := m.(type) {
			case *ssa.Function:
				visit(x)
			case *ssa.Type:
				for _, t := range []types.Type{x.Type(), types.NewPointer(x.Type())} {
					ms := prog.MethodSets.MethodSet(t)
					for i := 0; i < ms.Len(); i++ {
						f := prog.MethodValue(ms.At(i))
						if f != nil && f.Synthetic == "" {
							visit(f)
						}
					}
				}
			}
		}
	}
	return out
}

func writeFile(path, content string) {
	os.MkdirAll(filepath.Dir(path), 0o755)
	os.WriteFile(path, []byte(content), 0o644)
}

func sortResults(rs []*OblResult) {
	sort.SliceStable(rs, func(i, j int) bool { return rs[i].O.Name < rs[j].O.Name })
}

// genLemmas: the standalone lemmas of the contract files (pure SMT goals).
func genLemmas(prog *ssa.Program, cs *Contracts, id string) *FuncReport {
	rep := &FuncReport{Func: "lemma", Key: "lemma", Props: map[string]bool{}}
	for _, lm := range cs.Lemmas {
		serves := false
		for _, p := range lm.Props {
			if p == id || id == "" {
				serves = true
			}
		}
		if !serves {
			continue
		}
		c := newCtx(prog, cs)
		c.topName = "lemma"
		func() {
			defer func() {
				if r := recover(); r != nil {
					if e, ok := r.(vcError); ok {
						rep.Err = lm.Label + ": " + e.msg
						return
					}
					panic(r)
				}
			}()
			st := &State{reach: tTrue, heaps: map[string]T{}, cells: map[string]Val{}, alloc: intLit(1)}
			for _, ax := range cs.Axioms {
				c.assume(tTrue, c.evalBool(&Env{c: c, st: st, names: map[string]Val{}}, ax.Expr))
			}
			// the induction lemmas (proved separately) are available to plain lemmas
			for _, ind := range cs.Inducts {
				c.emit("(assert " + c.inductFormula(ind, "concl").S + ")")
			}
			g := c.evalBool(&Env{c: c, st: st, names: map[string]Val{}}, lm.Expr)
			c.oblige(st, "lemma", lm.Label, lm.Props, g, token.NoPos, "lemma: "+lm.Src)
		}()
		rep.Obls = append(rep.Obls, c.obls...)
	}
	return rep
}

func contains(xs []string, x string) bool {
	for _, y := range xs {
		if y == x {
			return true
		}
	}
	return false
}

// inductTerm builds  forall vars. [pre =>] body[n := nTerm]  for an induct lemma.
func (c *Ctx) inductFormula(ind *Induct, mode string) T {
	st := &State{reach: tTrue, heaps: map[string]T{}, cells: map[string]Val{}, alloc: intLit(1)}
	env := &Env{c: c, st: st, names: map[string]Val{}, bound: map[string]Val{}}
	var binders []string
	c.inQuant++
	defer func() { c.inQuant-- }()
	for _, vr := range ind.Vars {
		c.nsym++
		switch vr[1] {
		case "int":
			t := T{fmt.Sprintf("q_%s_%d", vr[0], c.nsym), SInt}
			binders = append(binders, fmt.Sprintf("(%s Int)", t.S))
			env.bound[vr[0]] = t
		case "real":
			t := T{fmt.Sprintf("q_%s_%d", vr[0], c.nsym), SReal}
			binders = append(binders, fmt.Sprintf("(%s Real)", t.S))
			env.bound[vr[0]] = t
		case "[]int", "[]real":
			k := SInt
			if vr[1] == "[]real" {
				k = SReal
			}
			a := T{fmt.Sprintf("q_%s_%d", vr[0], c.nsym), arrSort(k)}
			binders = append(binders, fmt.Sprintf("(%s %s)", a.S, a.K))
			env.bound[vr[0]] = SeqV{a, intLit(0), intLit(0)} // sequences in lemmas are unbounded; len() is not meaningful
		default:
			panic(vcErr("induct: variable type %s", vr[1]))
		}
	}
	c.nsym++
	n := T{fmt.Sprintf("q_%s_%d", ind.N, c.nsym), SInt}
	at := func(t T) T {
		e2 := *env
		e2.bound = copyMap(env.bound)
		e2.bound[ind.N] = t
		return c.evalBool(&e2, ind.Body)
	}
	// "using LABEL(e1, ..., ek)": an instance of an earlier lemma on this lemma's
	// own variables, available in the base and the step case
	helpers := func(nv T) T {
		var hs []T
		for _, u := range ind.Using {
			i := strings.Index(u, "(")
			if i < 0 {
				continue
			}
			label := strings.TrimSpace(u[:i])
			var prev *Induct
			for _, x := range c.cs.Inducts {
				if x == ind {
					break
				}
				if x.Label == label {
					prev = x
				}
			}
			if prev == nil {
				panic(vcErr("induct %s: using %s: no earlier lemma of that name", ind.Label, label))
			}
			args := splitTopLevel(u[i+1 : len(u)-1])
			if len(args) != len(prev.Vars)+1 {
				panic(vcErr("induct %s: using %s: wrong number of arguments", ind.Label, label))
			}
			e2 := *env
			e2.bound = copyMap(env.bound)
			e2.bound[ind.N] = nv
			b2 := map[string]Val{}
			for k, a := range args {
				v := c.eval(&e2, parseExprSrc(a, ind.File, ind.Line))
				if k < len(prev.Vars) {
					b2[prev.Vars[k][0]] = v
				} else {
					b2[prev.N] = v
				}
			}
			e3 := &Env{c: c, st: st, names: map[string]Val{}, bound: b2}
			hs = append(hs, implies(app(SBool, ">=", b2[prev.N].(T), intLit(0)), c.evalBool(e3, prev.Body)))
		}
		return and(hs...)
	}
	var f T
	switch mode {
	case "base":
		f = implies(helpers(intLit(0)), at(intLit(0)))
	case "step":
		binders = append(binders, fmt.Sprintf("(%s Int)", n.S))
		f = implies(and(app(SBool, ">=", n, intLit(0)), at(n), helpers(n)), at(app(SInt, "+", n, intLit(1))))
	default: // the conclusion, used as an axiom elsewhere
		body := at(n)
		if !strings.Contains(body.S, n.S) {
			// the induction variable is not used (a plain lemma): nothing to bind
			f = body
			n = T{"", SInt}
		} else {
			binders = append(binders, fmt.Sprintf("(%s Int)", n.S))
			f = implies(app(SBool, ">=", n, intLit(0)), body)
		}
		// instantiate on the spec-function applications that mention the induction variable
		var pats []string
		seen := map[string]bool{}
		bound := map[string]bool{}
		for _, b := range binders {
			bound[strings.Fields(strings.Trim(b, "()"))[0]] = true
		}
		onlyBound := func(t string) bool {
			for _, v := range qvarRe.FindAllString(t, -1) {
				if !bound[v] {
					return false
				}
			}
			return true
		}
		for _, t := range specApps(body.S) {
			if strings.Contains(t, n.S) && !seen[t] && onlyBound(t) {
				seen[t] = true
				pats = append(pats, t)
			}
		}
		// variables not covered by the spec applications: add a select term that mentions them
		for _, b := range binders {
			name := strings.Fields(strings.Trim(b, "()"))[0]
			if strings.Contains(strings.Join(pats, " "), name) {
				continue
			}
			re := regexp.MustCompile(`\(select (q_[A-Za-z0-9_]+) ` + regexp.QuoteMeta(name) + `\)`)
			if m := re.FindString(body.S); m != "" {
				pats = append(pats, m)
			}
		}
		if len(pats) > 0 && patternCovers(pats, binders) {
			return T{fmt.Sprintf("(forall (%s) (! %s :pattern (%s)))", strings.Join(binders, " "), f.S, strings.Join(pats, " ")), SBool}
		}
	}
	if len(binders) == 0 {
		return f
	}
	return T{fmt.Sprintf("(forall (%s) %s)", strings.Join(binders, " "), f.S), SBool}
}

var qvarRe = regexp.MustCompile(`q_[A-Za-z0-9]+_[0-9]+`)

// genInducts: base and step obligations of the induction lemmas.
// usedLemmas: labels of lemmas that the functions of the running check rely on
// (set by cmdCheck); they are re-proved in that check whatever their label.
var usedLemmas map[string]bool

func genInducts(prog *ssa.Program, cs *Contracts, id string) *FuncReport {
	rep := &FuncReport{Func: "lemma", Key: "lemma", Props: map[string]bool{}}
	for _, ind := range cs.Inducts {
		serves := id == "" || usedLemmas[ind.Label]
		for _, p := range ind.Props {
			if p == id {
				serves = true
			}
		}
		if !serves {
			continue
		}
		for _, mode := range []string{"base", "step"} {
			c := newCtx(prog, cs)
			c.topName = "lemma"
			func() {
				defer func() {
					if r := recover(); r != nil {
						if e, ok := r.(vcError); ok {
							rep.Err = ind.Label + ": " + e.msg
							return
						}
						panic(r)
					}
				}()
				st := &State{reach: tTrue, heaps: map[string]T{}, cells: map[string]Val{}, alloc: intLit(1)}
				// conclusions of earlier lemmas named by "using" (earlier in the
				// file order only, so there is no circularity)
				for _, prev := range cs.Inducts {
					if prev == ind {
						break
					}
					if contains(ind.Using, prev.Label) {
						c.emit("(assert " + c.inductFormula(prev, "concl").S + ")")
					}
				}
				g := c.inductFormula(ind, mode)
				c.oblige(st, "lemma", ind.Label+"."+mode, ind.Props, g, token.NoPos, "induction "+mode+": "+ind.Src)
			}()
			rep.Obls = append(rep.Obls, c.obls...)
		}
	}
	return rep
}

// specApps returns the maximal sub-terms of s that are applications of spec functions.
func specApps(s string) []string {
	var out []string
	for i := 0; i < len(s); i++ {
		if strings.HasPrefix(s[i:], "(spec_") {
			depth := 0
			j := i
			for ; j < len(s); j++ {
				if s[j] == '(' {
					depth++
				} else if s[j] == ')' {
					depth--
					if depth == 0 {
						break
					}
				}
			}
			out = append(out, s[i:j+1])
			i = j
		}
	}
	return out
}

func patternCovers(pats []string, binders []string) bool {
	all := strings.Join(pats, " ")
	for _, b := range binders {
		name := strings.Fields(strings.Trim(b, "()"))[0]
		if !strings.Contains(all, name) {
			return false
		}
	}
	return true
}

// setupFrame evaluates the assigns clause into allowed (heap, object) pairs.
func (c *Ctx) setupFrame(fr *Frame, env *Env, entryCut int, entryAlloc T) {
	c.frameAllowed = map[string][]T{}
	c.frameAllowedWholeField = map[string]bool{}
	c.entryCut = entryCut
	c.entryAlloc = entryAlloc
	st := &State{heaps: map[string]T{}, cells: map[string]Val{}, alloc: intLit(0), reach: tTrue}
	saveLog := c.writeLog
	snap := c.snapshot()
	c.writeLog = nil
	c.inUnrollHavoc = true // the model rule for writes to unrolled storage does not apply while the clause is evaluated
	defer func() { c.inUnrollHavoc = false }()
	for _, a := range c.fc.Assigns {
		if strings.TrimSpace(a) == "*" {
			c.frameAll = true
			continue
		}
		e2 := *env
		e2.st = st
		fr.havocTarget(&e2, st, a)
	}
	for _, w := range c.writeLog {
		if w.key != nil {
			base := w.heap
			if i := strings.Index(base, "#"); i > 0 {
				base = base[:i]
			}
			c.frameAllowed[base] = append(c.frameAllowed[base], *w.key)
		}
	}
	c.restore(snap)
	c.writeLog = saveLog
	c.frameActive = !c.frameAll
}

// splitTopLevel splits s at commas that are not nested in parentheses or brackets.
func splitTopLevel(s string) []string {
	var out []string
	depth, start := 0, 0
	for i, ch := range s {
		switch ch {
		case '(', '[':
			depth++
		case ')', ']':
			depth--
		case ',':
			if depth == 0 {
				out = append(out, strings.TrimSpace(s[start:i]))
				start = i + 1
			}
		}
	}
	if strings.TrimSpace(s[start:]) != "" {
		out = append(out, strings.TrimSpace(s[start:]))
	}
	return out
}

// lemmaInstance evaluates "LABEL(e1, ..., en)" in env: the body of the induction
// lemma LABEL with its variables bound to the given terms (base and step of the
// lemma are separate obligations of every check that uses it).
func (c *Ctx) lemmaInstance(env *Env, inst string, file string, line int) T {
	i := strings.Index(inst, "(")
	if i < 0 || !strings.HasSuffix(inst, ")") {
		panic(vcErr("bad instantiate directive %q", inst))
	}
	label := strings.TrimSpace(inst[:i])
	var ind *Induct
	for _, x := range c.cs.Inducts {
		if x.Label == label {
			ind = x
		}
	}
	if ind == nil {
		panic(vcErr("instantiate: no induction lemma %s", label))
	}
	args := splitTopLevel(inst[i+1 : len(inst)-1])
	if len(args) != len(ind.Vars)+1 {
		panic(vcErr("instantiate %s: %d arguments, the lemma has %d variables plus the induction variable", label, len(args), len(ind.Vars)))
	}
	bound := map[string]Val{}
	for k, a := range args {
		v := c.eval(env, parseExprSrc(a, file, line))
		if k < len(ind.Vars) {
			if strings.HasPrefix(ind.Vars[k][1], "[]") {
				v = c.toSeq(env, v)
			}
			bound[ind.Vars[k][0]] = v
		} else {
			bound[ind.N] = v
		}
	}
	e2 := &Env{c: c, st: env.st, names: map[string]Val{}, bound: bound}
	c.inQuant++
	body := c.evalBool(e2, ind.Body)
	c.inQuant--
	c.note("instance of the induction lemma " + label + " (base and step are discharged as separate obligations)")
	return implies(app(SBool, ">=", bound[ind.N].(T), intLit(0)), body)
}

// recordDistinctIDs: conjuncts "a.id != b.id" of a precondition are remembered
// so that reads of one object through stores to the other are resolved at
// generation time (read-over-write simplification).
func (c *Ctx) recordDistinctIDs(env *Env, e ast.Expr) {
	switch x := e.(type) {
	case *ast.ParenExpr:
		c.recordDistinctIDs(env, x.X)
	case *ast.BinaryExpr:
		if x.Op == token.LAND {
			c.recordDistinctIDs(env, x.X)
			c.recordDistinctIDs(env, x.Y)
			return
		}
		if x.Op != token.NEQ {
			return
		}
		isID := func(e ast.Expr) bool {
			s, ok := e.(*ast.SelectorExpr)
			return ok && (s.Sel.Name == "id" || strings.HasPrefix(s.Sel.Name, "g_"))
		}
		if !isID(x.X) || !isID(x.Y) {
			return
		}
		a, ok1 := c.eval(env, x.X).(T)
		b, ok2 := c.eval(env, x.Y).(T)
		if !ok1 || !ok2 {
			return
		}
		if c.distinctPairs == nil {
			c.distinctPairs = map[string]bool{}
		}
		c.distinctPairs[a.S+"|"+b.S] = true
		c.distinctPairs[b.S+"|"+a.S] = true
	}
}
