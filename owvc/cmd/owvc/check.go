package main

// `owvc check <id>`: decide one property — generate, discharge, replay,
// report, write evidence.

import (
	"encoding/json"
	"flag"
	"fmt"
	"math"
	"os"
	"os/exec"
	"path/filepath"
	"sort"
	"strconv"
	"strings"
	"sync"
	"time"
)

var safetyKinds = map[string]bool{"bounds": true, "div0": true, "nil": true, "domain": true, "conv": true, "panic-unreachable": true, "typeassert": true}

type KnownFinding struct {
	Property   string `json:"property"`
	Obligation string `json:"obligation"` // obligation name without the #ordinal
	What       string `json:"what"`
	Input      string `json:"input,omitempty"`
	Defect     string `json:"defect,omitempty"`
	Witness    string `json:"witness_test,omitempty"` // test file under /verif/witness run on the real code
	WitnessPkg string `json:"witness_pkg,omitempty"`  // package dir relative to the repository root
}

// runWitness runs the hand-written witness of a known finding against the real code.
func runWitness(kf KnownFinding) string {
	if kf.Witness == "" {
		return ""
	}
	src, err := os.ReadFile(filepath.Join(verifRoot, "witness", kf.Witness))
	if err != nil {
		return "witness missing: " + err.Error()
	}
	s := strings.Replace(string(src), "func TestOwvcWitness(", "func TestOwvcReplay(", 1)
	out := execReplayTest(kf.WitnessPkg, s)
	for _, l := range strings.Split(out, "\n") {
		if strings.HasPrefix(l, "OWVC-WITNESS") {
			return l
		}
	}
	return "witness produced no verdict: " + firstLines(out, 4)
}

type KnownFile struct {
	Findings []KnownFinding `json:"findings"`
	Fixed    []string       `json:"fixed"`
}

func loadKnown() KnownFile {
	var k KnownFile
	b, err := os.ReadFile(filepath.Join(verifRoot, "known_findings.json"))
	if err == nil {
		if err := json.Unmarshal(b, &k); err != nil {
			fatalf("known_findings.json: %v", err)
		}
	}
	return k
}

func baseName(oblName string) string {
	if i := strings.LastIndex(oblName, "#"); i > 0 {
		return oblName[:i]
	}
	return oblName
}

func shortName(oblName string) string {
	return strings.ReplaceAll(oblName, modulePrefix+"/", "")
}

func contractProps(fc *FuncContract) map[string]bool {
	m := map[string]bool{}
	for _, cl := range fc.Clauses {
		for _, p := range cl.Props {
			m[p] = true
		}
	}
	for _, s := range fc.Safety {
		m[s] = true
	}
	if fc.Kernel {
		m["C14"] = true
	}
	if fc.HasStates {
		m["C06"] = true
	}
	if fc.LocModel {
		m["C04"] = true
		m["C05"] = true
		m["C14"] = true
	}
	return m
}

func oblServes(o *Obligation, fc *FuncContract, id string) bool {
	if len(o.Props) > 0 {
		for _, p := range o.Props {
			if p == id {
				return true
			}
		}
		return false
	}
	if id == "C06" || id == "C14" || id == "C05" || id == "C08" {
		// structural properties: only their own labelled obligations (the
		// arithmetic contracts of the same function belong to other properties)
		return false
	}
	if safetyKinds[o.Kind] {
		if len(fc.SafetyKinds) > 0 && !contains(fc.SafetyKinds, o.Kind) {
			return false
		}
		for _, s := range fc.Safety {
			if s == id {
				return true
			}
		}
		return false
	}
	return true
}

type violation struct {
	obl     string
	replay  string
	noInput bool
}

func cmdCheck(args []string) {
	if len(args) < 1 {
		fatalf("check: property id missing")
	}
	id := args[0]
	fs := flag.NewFlagSet("check", flag.ExitOnError)
	tier := fs.String("tier", "quick", "quick | thorough")
	fs.Parse(args[1:])
	if t := os.Getenv("VERIF_TIER"); t == "quick" || t == "thorough" {
		*tier = t
	}
	seed := 0
	if s := os.Getenv("VERIF_SEED"); s != "" {
		seed, _ = strconv.Atoi(s)
	}
	spec, ok := propSpecs[id]
	if !ok {
		fatalf("no check for property %s", id)
	}
	t0 := time.Now()
	timeout := 30
	coverTimeout := 1
	if *tier == "thorough" {
		timeout = 60
		coverTimeout = 5
		thoroughMode = true
		os.Setenv("OWVC_THOROUGH", "1") // bounded companions explore denser grids
	}
	// self-test runs (see selfTest): another source tree, scratch output, no evidence file
	selftestRun := os.Getenv("OWVC_SELFTEST_REPO") != ""
	workRoot := verifRoot
	if selftestRun {
		repoRoot = os.Getenv("OWVC_SELFTEST_REPO")
		workRoot = os.Getenv("OWVC_SELFTEST_WORK")
		thoroughMode = false
	}
	outDir := filepath.Join(workRoot, "out", id)
	os.RemoveAll(outDir)
	os.MkdirAll(outDir, 0o755)
	replayDir := filepath.Join(workRoot, "replays", id)
	os.RemoveAll(replayDir)
	os.MkdirAll(replayDir, 0o755)

	l := loadRepo(spec.Patterns)
	known := loadKnown()

	type job struct {
		fc  *FuncContract
		rep *FuncReport
	}
	var jobs []*job
	var viol []violation
	var missing []string
	keys := sortedKeys(l.cs.Funcs)
	for _, k := range keys {
		fc := l.cs.Funcs[k]
		if fc.Trusted != "" || !contractProps(fc)[id] {
			continue
		}
		jobs = append(jobs, &job{fc: fc})
	}
	// generation (parallel per function)
	var wg sync.WaitGroup
	sem := make(chan struct{}, 8)
	for _, j := range jobs {
		fn := l.funcs[j.fc.Pkg+"."+j.fc.Name]
		if fn == nil {
			missing = append(missing, j.fc.Pkg+"."+j.fc.Name)
			continue
		}
		wg.Add(1)
		go func(j *job) {
			defer wg.Done()
			sem <- struct{}{}
			defer func() { <-sem }()
			j.rep = genFunction(l.prog, l.cs, fn, j.fc)
		}(j)
	}
	wg.Wait()

	var obls []*Obligation
	oblFC := map[*Obligation]*FuncContract{}
	var funcs []string
	notes := map[string]bool{}
	var genErrs []string
	for _, j := range jobs {
		if j.rep == nil {
			continue
		}
		funcs = append(funcs, shortName(j.rep.Func))
		if j.rep.Err != "" {
			genErrs = append(genErrs, shortName(j.rep.Func)+": "+j.rep.Err)
			continue
		}
		for _, n := range j.rep.Notes {
			notes[n] = true
		}
		for _, fe := range j.rep.FrameErrs {
			genErrs = append(genErrs, shortName(j.rep.Func)+": frame: "+fe)
		}
		for _, o := range j.rep.Obls {
			if oblServes(o, j.fc, id) {
				obls = append(obls, o)
				oblFC[o] = j.fc
			}
		}
	}
	// induction lemmas of this property, plus every lemma (and the lemmas it
	// builds on) that a function of this check uses or instantiates
	usedLemmas = map[string]bool{}
	for _, j := range jobs {
		for _, u := range j.fc.UseLemmas {
			usedLemmas[u] = true
		}
		for _, u := range j.fc.Instantiate2 {
			usedLemmas[u] = true
		}
		for _, inst := range j.fc.Instantiate {
			if i := strings.Index(inst, "("); i > 0 {
				usedLemmas[strings.TrimSpace(inst[:i])] = true
			}
		}
	}
	for changed := true; changed; {
		changed = false
		for _, ind := range l.cs.Inducts {
			if usedLemmas[ind.Label] {
				for _, u := range ind.Using {
					if i := strings.Index(u, "("); i > 0 {
						u = strings.TrimSpace(u[:i])
					}
					if !usedLemmas[u] {
						usedLemmas[u] = true
						changed = true
					}
				}
			}
		}
	}
	if irep := genInducts(l.prog, l.cs, id); len(irep.Obls) > 0 || irep.Err != "" {
		if irep.Err != "" {
			genErrs = append(genErrs, "lemma: "+irep.Err)
		}
		lfc := &FuncContract{}
		for _, o := range irep.Obls {
			obls = append(obls, o)
			oblFC[o] = lfc
		}
	}
	if lrep := genLemmas(l.prog, l.cs, id); len(lrep.Obls) > 0 || lrep.Err != "" {
		if lrep.Err != "" {
			genErrs = append(genErrs, "lemma: "+lrep.Err)
		}
		lfc := &FuncContract{}
		for _, o := range lrep.Obls {
			obls = append(obls, o)
			oblFC[o] = lfc
		}
	}
	genS := time.Since(t0).Seconds()
	isKnownObl := func(o *Obligation) bool {
		for _, kf := range known.Findings {
			if kf.Property == id && kf.Obligation == shortName(baseName(o.Name)) {
				return true
			}
		}
		return false
	}
	var oblsMain, oblsKnown []*Obligation
	var oblsCover []*Obligation
	for _, o := range obls {
		if isKnownObl(o) {
			oblsKnown = append(oblsKnown, o)
		} else if o.ExpectSat || o.Canary {
			oblsCover = append(oblsCover, o)
		} else {
			oblsMain = append(oblsMain, o)
		}
	}
	var resKnown, resCover []*OblResult
	var wgk sync.WaitGroup
	wgk.Add(2)
	go func() { defer wgk.Done(); resKnown = dischargeAll(oblsKnown, outDir, 3) }()
	go func() { defer wgk.Done(); resCover = dischargeAll(oblsCover, outDir, coverTimeout) }()
	res := dischargeAll(oblsMain, outDir, timeout)
	wgk.Wait()
	// one retry with a longer limit for undecided obligations
	var retry []int
	for i, r := range res {
		if r.Status == "undecided" {
			retry = append(retry, i)
		}
	}
	if len(retry) > 0 && len(retry) <= 64 {
		allSolvers = true
		var wg2 sync.WaitGroup
		for _, i := range retry {
			wg2.Add(1)
			go func(i int) {
				defer wg2.Done()
				res[i] = discharge(res[i].O, outDir, timeout*4)
			}(i)
		}
		wg2.Wait()
	}
	res = append(res, resKnown...)
	res = append(res, resCover...)
	sortResults(res)

	// classify
	type oblOut struct {
		Name   string `json:"name"`
		Kind   string `json:"kind"`
		Clause string `json:"clause"`
		Pos    string `json:"pos"`
		Status string `json:"status"`
		Solver string `json:"back_end"`
		Ms     int64  `json:"ms"`
		Bytes  int    `json:"smt_bytes"`
		Bound  string `json:"bounded,omitempty"`
	}
	var oblOuts []oblOut
	nObl, nDis, nCover, nCoverOK, nKnown := 0, 0, 0, 0, 0
	nCanary := 0
	nBounded := 0
	boundedNotes := map[string]bool{}
	var solverMs int64
	knownPrinted := map[string]bool{}
	var knownLines []string
	var witnessOut []string
	nSecond, nClash := 0, 0
	for _, r := range res {
		o := r.O
		solverMs += r.Ms
		if r.Second > 0 {
			nSecond++
		}
		if r.Clash != "" {
			nClash++
		}
		oo := oblOut{shortName(o.Name), o.Kind, o.Text, strings.TrimPrefix(o.Pos, repoRoot+"/"), r.Status, r.Solver, r.Ms, len(r.Query), ""}
		if fcb := oblFC[o]; fcb != nil && fcb.BoundedNote != "" {
			oo.Bound = fcb.BoundedNote
			if r.Status == "discharged" && !o.Canary && o.Kind != "cover" {
				nBounded++
				boundedNotes[shortName(fcb.Pkg+"."+fcb.Name)+": "+fcb.BoundedNote] = true
			}
		}
		isKnown := false
		for _, kf := range known.Findings {
			if kf.Property == id && kf.Obligation == shortName(baseName(o.Name)) {
				isKnown = true
				if r.Status != "discharged" {
					if !knownPrinted[kf.Obligation] {
						knownPrinted[kf.Obligation] = true
						line := fmt.Sprintf("KNOWN-FINDING: property=%s %s: %s", id, kf.Obligation, kf.What)
						if w := runWitness(kf); w != "" {
							line += " [witness on the real code: " + w + "]"
							witnessOut = append(witnessOut, kf.Obligation+": "+w)
						}
						knownLines = append(knownLines, line)
					}
					oo.Status = "known-finding"
				} else {
					oo.Status = "discharged (listed as known finding: stale entry?)"
				}
			}
		}
		oblOuts = append(oblOuts, oo)
		if isKnown {
			nKnown++
			continue
		}
		if o.Kind == "cover" {
			nCover++
			if r.Status == "discharged" {
				nCoverOK++
			} else if r.Status == "failed" {
				// vacuity: precondition contradictory or point unreachable
				file := writeReplayFile(replayDir, id, r, nil, "vacuity guard failed: "+o.Text)
				viol = append(viol, violation{o.Name, file, true})
			}
			continue
		}
		nObl++
		if o.Canary {
			nCanary++
		}
		switch r.Status {
		case "discharged":
			nDis++
		case "failed":
			var ro *ReplayOutcome
			if o.Replay != nil {
				ro = runReplay(r, l.cs)
			}
			file := writeReplayFile(replayDir, id, r, ro, "")
			viol = append(viol, violation{o.Name, file, ro == nil || !ro.Confirmed})
		default:
			file := writeReplayFile(replayDir, id, r, nil, "no solver decided this obligation within the time limit")
			viol = append(viol, violation{o.Name, file, true})
		}
	}
	for _, m := range missing {
		r := &OblResult{O: &Obligation{Name: m + "/exists", Kind: "exists", Text: "function under contract exists"}, Status: "failed"}
		file := writeReplayFile(replayDir, id, r, nil, "the function named by the contract no longer exists")
		viol = append(viol, violation{r.O.Name, file, true})
	}
	for _, ge := range genErrs {
		r := &OblResult{O: &Obligation{Name: strings.SplitN(ge, ":", 2)[0] + "/generate", Kind: "generate", Text: ge}, Status: "failed"}
		file := writeReplayFile(replayDir, id, r, nil, "verification conditions could not be generated / frame violated: "+ge)
		viol = append(viol, violation{r.O.Name, file, true})
	}
	if nObl+nKnown == 0 {
		r := &OblResult{O: &Obligation{Name: id + "/obligation-count", Kind: "count", Text: "no obligation was generated"}, Status: "failed"}
		file := writeReplayFile(replayDir, id, r, nil, "the check generated no obligation at all: a run that proves nothing is not a pass")
		viol = append(viol, violation{r.O.Name, file, true})
	}
	// bounded stand-ins (files /verif/bounded/<id>_*_test.go): grids of the real code for clauses
	// that no contract can decide; reported as bounded, never as proved
	boundedOut := runBounded(id)
	for _, bo := range boundedOut {
		if bo.Violation != "" {
			r := &OblResult{O: &Obligation{Name: "bounded/" + bo.Name, Kind: "bounded", Text: bo.Bound}, Status: "failed", Output: bo.Violation}
			file := writeReplayFile(replayDir, id, r, nil, "bounded check on the real code ("+bo.File+"): "+bo.Violation)
			viol = append(viol, violation{r.O.Name, file, bo.NoInput})
		}
	}
	// expected count
	exp := loadExpected()
	if n, ok := exp[id]; ok && nObl+nKnown < n {
		r := &OblResult{O: &Obligation{Name: id + "/obligation-count", Kind: "count", Text: fmt.Sprintf("at least %d obligations expected, %d generated", n, nObl+nKnown)}, Status: "failed"}
		file := writeReplayFile(replayDir, id, r, nil, "fewer obligations than the committed expected count (a contract clause or function vanished)")
		viol = append(viol, violation{r.O.Name, file, true})
	}

	for _, kl := range knownLines {
		fmt.Println(kl)
	}
	wall := time.Since(t0).Seconds()
	// evidence
	var samples []interface{}
	for i, oo := range oblOuts {
		if i%maxInt(1, len(oblOuts)/6) == 0 && len(samples) < 8 {
			samples = append(samples, oo)
		}
	}
	assumptions := append([]string{}, spec.Assumptions...)
	assumptions = append(assumptions, baseAssumptions...)
	assumptions = append(assumptions, sortedKeys(notes)...)
	trustedContracts := []string{}
	for _, k := range sortedKeys(l.cs.Funcs) {
		if fc := l.cs.Funcs[k]; fc.Trusted != "" {
			trustedContracts = append(trustedContracts, shortName(k)+": "+fc.Trusted)
		}
	}
	level := spec.Level
	cov := map[string]interface{}{
		"obligations":              nObl,
		"discharged":               nDis,
		"discharged_bounded":       map[string]interface{}{"count": nBounded, "meaning": "discharged obligations of functions whose contract is labelled bounded: they hold within the stated bound only and are NOT counted as proved", "bounds": sortedKeys(boundedNotes)},
		"checker_cmd":              fmt.Sprintf("/verif/bin/owvc check %s --tier %s", id, *tier),
		"trusted_base":             trustedBase,
		"functions_under_contract": funcs,
		"vacuity_covers":           map[string]int{"run": nCover, "sat": nCoverOK},
		"canaries":                 map[string]interface{}{"run": nCanary, "meaning": "deliberately false postconditions (canary clauses of the contract files) that must not be provable; a proved canary is reported as a violation"},
		"known_findings":           nKnown,
		"known_finding_witnesses":  witnessOut,
		"solver_ms_total":          solverMs,
		"generation_s":             genS,
		"per_obligation":           oblOuts,
		"samples":                  samples,
		"not_covered":              spec.NotCovered,
		"bounded_checks":           boundedEvidence(boundedOut),
		"assumed_contracts":        trustedContracts,
		"contract_files":           relFiles(l.cs.Files),
		"explanation":              spec.Explanation,
		"rule":                     "one case = one proof obligation generated from /repo's current source by owvc and decided by an SMT solver",
	}
	if *tier == "thorough" && !selftestRun {
		cov["second_opinions"] = map[string]interface{}{"obligations_confirmed_by_a_second_solver_or_variant": nSecond, "contradictions": nClash,
			"meaning": "thorough tier: after the first definitive answer the other solvers get 1.5 s more on the same query; an unsat contradicted by a sat on the full query is not counted as discharged"}
		cov["selftest"] = selfTest(id)
	}
	if selftestRun {
		// result line only: the evidence of the real tree is not touched
		os.RemoveAll(outDir)
		fmt.Printf("owvc: selftest run on %s: %d obligations, %d discharged, %d violations\n", repoRoot, nObl, nDis, len(viol))
		for _, v := range viol {
			fmt.Printf("VIOLATION property=%s replay=%s\n", id, v.replay)
		}
		if len(viol) > 0 {
			os.Exit(1)
		}
		os.Exit(0)
	}
	ev := map[string]interface{}{
		"property_id": id,
		"tier":        *tier,
		"seed":        seed,
		"level":       level,
		"coverage":    cov,
		"assumptions": assumptions,
		"wall_s":      wall,
		"violations":  len(viol),
	}
	b, _ := json.MarshalIndent(ev, "", " ")
	writeFile(filepath.Join(verifRoot, "evidence", id+".json"), string(b)+"\n")

	// the SMT queries of a run are scratch (a violation's query is kept in its replay file)
	if os.Getenv("OWVC_KEEP_QUERIES") == "" {
		os.RemoveAll(outDir)
	}
	fmt.Printf("owvc: property %s tier %s: %d obligations, %d discharged, %d known findings, %d vacuity covers (%d sat), %d functions, %.1fs\n",
		id, *tier, nObl, nDis, nKnown, nCover, nCoverOK, len(funcs), wall)
	if len(viol) > 0 {
		sort.Slice(viol, func(i, j int) bool { return viol[i].obl < viol[j].obl })
		for _, v := range viol {
			line := fmt.Sprintf("VIOLATION property=%s replay=%s", id, v.replay)
			if v.noInput {
				line += " no-failing-input-found"
			}
			fmt.Println(line)
		}
		os.Exit(1)
	}
	os.Exit(0)
}

func maxInt(a, b int) int {
	if a > b {
		return a
	}
	return b
}

func relFiles(fs []string) []string {
	var out []string
	for _, f := range fs {
		out = append(out, strings.TrimPrefix(f, repoRoot+"/"))
	}
	sort.Strings(out)
	return out
}

func loadExpected() map[string]int {
	m := map[string]int{}
	b, err := os.ReadFile(filepath.Join(verifRoot, "expected_obligations.json"))
	if err == nil {
		json.Unmarshal(b, &m)
	}
	return m
}

func writeReplayFile(dir, id string, r *OblResult, ro *ReplayOutcome, note string) string {
	o := r.O
	m := map[string]interface{}{
		"property":       id,
		"obligation":     shortName(o.Name),
		"kind":           o.Kind,
		"clause":         o.Text,
		"function":       shortName(o.Func),
		"position":       o.Pos,
		"status":         r.Status,
		"solver":         r.Solver,
		"solver_answers": r.AllStat,
		"solver_output":  truncate(r.Output, 4000),
		"note":           note,
		"smt_query":      r.Query,
	}
	if r.Model != nil {
		m["model"] = r.Model
	}
	if ro != nil {
		m["replay"] = map[string]interface{}{
			"confirmed_on_real_code": ro.Confirmed,
			"reason":                 ro.Reason,
			"inputs":                 jsonSafe(ro.Inputs),
			"observed":               ro.Observed,
			"test_source":            ro.TestSrc,
			"test_output":            truncate(ro.TestOut, 4000),
		}
	}
	b, _ := json.MarshalIndent(m, "", " ")
	file := filepath.Join(dir, sanitize(shortName(o.Name))+".json")
	writeFile(file, string(b)+"\n")
	return file
}

func truncate(s string, n int) string {
	if len(s) > n {
		return s[:n] + "…"
	}
	return s
}

// cmdReplay re-runs the replay recorded in a replay file.
func cmdReplay(args []string) {
	if len(args) < 1 {
		fatalf("replay: file missing")
	}
	b, err := os.ReadFile(args[0])
	if err != nil {
		fatalf("%v", err)
	}
	var m map[string]interface{}
	if err := json.Unmarshal(b, &m); err != nil {
		fatalf("%v", err)
	}
	fmt.Printf("obligation: %v\nclause: %v\nstatus: %v (%v)\n", m["obligation"], m["clause"], m["status"], m["solver"])
	rp, ok := m["replay"].(map[string]interface{})
	if !ok {
		fmt.Println("no executable replay recorded for this obligation (no-failing-input-found); solver output:")
		fmt.Println(m["solver_output"])
		os.Exit(1)
	}
	src, _ := rp["test_source"].(string)
	fn, _ := m["function"].(string)
	// function "models/routing.muskingum" -> package dir
	rel := fn
	if i := strings.LastIndex(rel, "."); i > 0 {
		rel = rel[:i]
	}
	out := execReplayTest(rel, src)
	fmt.Println(out)
	fmt.Printf("recorded verdict: confirmed=%v — %v\n", rp["confirmed_on_real_code"], rp["reason"])
	os.Exit(1)
}

// jsonSafe replaces non-finite floats (which encoding/json rejects) by strings.
func jsonSafe(v interface{}) interface{} {
	switch x := v.(type) {
	case float64:
		if math.IsNaN(x) || math.IsInf(x, 0) {
			return fmt.Sprint(x)
		}
		return x
	case []float64:
		out := make([]interface{}, len(x))
		for i, e := range x {
			out[i] = jsonSafe(e)
		}
		return out
	case map[string]interface{}:
		out := map[string]interface{}{}
		for k, e := range x {
			out[k] = jsonSafe(e)
		}
		return out
	}
	return v
}

// selfTest (thorough tier): every stored seeded change of this property
// (/verif/seeded/<name>/, a change that is known to break the property and to
// pass the repository's own tests) is applied to a scratch copy of /repo's
// working tree and the quick check is run on that copy. The check must report
// a violation there. The result is evidence about the check's sensitivity; it
// never changes the verdict on the real tree. Scratch copies live under the
// system temp directory and are removed before this function returns.
func selfTest(id string) map[string]interface{} {
	out := map[string]interface{}{"meaning": "stored seeded changes of this property applied to a scratch copy of the working tree; the quick check must report a violation on each"}
	dirs, _ := filepath.Glob(filepath.Join(verifRoot, "seeded", "*", "meta.json"))
	var detected, missed, stale []string
	self, err := os.Executable()
	if err != nil {
		self = filepath.Join(verifRoot, "bin", "owvc")
	}
	var wgS sync.WaitGroup
	var muS sync.Mutex
	semS := make(chan struct{}, 2) // two scratch copies at a time
	for _, mf := range dirs {
		b, err := os.ReadFile(mf)
		if err != nil {
			continue
		}
		var meta struct {
			Name  string `json:"name"`
			Props string `json:"breaks_property"`
		}
		if json.Unmarshal(b, &meta) != nil || meta.Props != id {
			continue
		}
		seedDir := filepath.Dir(mf)
		scratch, err := os.MkdirTemp("", "owvc_selftest_")
		if err != nil {
			continue
		}
		wgS.Add(1)
		go func() {
			defer wgS.Done()
			semS <- struct{}{}
			defer func() { <-semS }()
			defer os.RemoveAll(scratch)
			tree := filepath.Join(scratch, "repo")
			if o, err := exec.Command("rsync", "-a", "--exclude", ".git", repoRoot+"/", tree+"/").CombinedOutput(); err != nil {
				muS.Lock()
				stale = append(stale, meta.Name+" (copy failed: "+truncate(string(o), 80)+")")
				muS.Unlock()
				return
			}
			pc := exec.Command("patch", "-p1", "-s", "--no-backup-if-mismatch", "-i", filepath.Join(seedDir, "patch.diff"))
			pc.Dir = tree
			if _, err := pc.CombinedOutput(); err != nil {
				muS.Lock()
				stale = append(stale, meta.Name+" (patch no longer applies)")
				muS.Unlock()
				return
			}
			cmd := exec.Command(self, "check", id, "--tier", "quick")
			var env []string
			for _, kv := range os.Environ() {
				if !strings.HasPrefix(kv, "OWVC_THOROUGH=") {
					env = append(env, kv)
				}
			}
			cmd.Env = append(env, "OWVC_SELFTEST_REPO="+tree, "OWVC_SELFTEST_WORK="+filepath.Join(scratch, "work"), "VERIF_TIER=quick")
			o, _ := cmd.CombinedOutput()
			n := strings.Count(string(o), "\nVIOLATION ") + strings.Count(string(o), "VIOLATION property=")/1
			if cmd.ProcessState != nil && cmd.ProcessState.ExitCode() == 1 && n > 0 {
				first := ""
				for _, ln := range strings.Split(string(o), "\n") {
					if strings.HasPrefix(ln, "VIOLATION ") {
						first = filepath.Base(strings.Fields(strings.SplitN(ln, "replay=", 2)[1])[0])
						break
					}
				}
				muS.Lock()
				detected = append(detected, meta.Name+": "+strings.TrimSuffix(first, ".json"))
				muS.Unlock()
			} else {
				muS.Lock()
				missed = append(missed, meta.Name)
				muS.Unlock()
			}
		}()
	}
	wgS.Wait()
	out["seeds"] = len(detected) + len(missed) + len(stale)
	out["detected"] = detected
	out["missed"] = missed
	out["stale"] = stale
	for _, m := range missed {
		fmt.Printf("SELFTEST-MISSED: property=%s seeded change %s is not detected by this check (see not_covered)\n", id, m)
	}
	return out
}

type boundedResult struct {
	Name, Bound, File string
	Points            string
	Violation         string
	NoInput           bool
}

// runBounded runs the bounded companion tests of a property on the real code (overlay test,
// nothing is written to the repository).
func runBounded(id string) []boundedResult {
	files, _ := filepath.Glob(filepath.Join(verifRoot, "bounded", id+"_*_test.go"))
	var out []boundedResult
	for _, f := range files {
		b, err := os.ReadFile(f)
		if err != nil {
			continue
		}
		src := string(b)
		pkg := ""
		bounds := map[string]string{}
		lines := strings.Split(src, "\n")
		for i, l := range lines {
			if j := strings.Index(l, "owvc-bounded:"); j >= 0 {
				for _, w := range strings.Fields(l[j:]) {
					if strings.HasPrefix(w, "pkg=") {
						pkg = strings.TrimPrefix(w, "pkg=")
					}
				}
				for _, l2 := range lines[i+1:] {
					t := strings.TrimSpace(strings.TrimPrefix(strings.TrimSpace(l2), "//"))
					if t == "" || !strings.HasPrefix(strings.TrimSpace(l2), "//") {
						break
					}
					if fs := strings.Fields(t); len(fs) > 1 {
						bounds[fs[0]] = strings.Join(fs[1:], " ")
					}
				}
			}
		}
		res := execReplayTest(pkg, src)
		seen := map[string]bool{}
		for _, l := range strings.Split(res, "\n") {
			if !strings.HasPrefix(l, "OWVC-BOUNDED ") {
				continue
			}
			fs := strings.Fields(l)
			if len(fs) < 3 {
				continue
			}
			r := boundedResult{Name: fs[1], Bound: bounds[fs[1]], File: filepath.Base(f)}
			seen[fs[1]] = true
			if fs[2] == "VIOLATION" {
				r.Violation = strings.TrimSpace(strings.SplitN(l, "VIOLATION", 2)[1])
			} else {
				r.Points = strings.TrimPrefix(fs[2], "points=")
			}
			out = append(out, r)
		}
		for name, bd := range bounds {
			if !seen[name] {
				out = append(out, boundedResult{Name: name, Bound: bd, File: filepath.Base(f), NoInput: true,
					Violation: "the bounded check did not run to a verdict (the code it calls may have been restructured): " + firstLines(res, 3)})
			}
		}
	}
	sort.Slice(out, func(i, j int) bool { return out[i].Name < out[j].Name })
	return out
}

func boundedEvidence(rs []boundedResult) []map[string]string {
	out := []map[string]string{}
	for _, r := range rs {
		st := "held on every point explored"
		if r.Violation != "" {
			st = "VIOLATION: " + r.Violation
		}
		out = append(out, map[string]string{"name": r.Name, "status": st, "bound": r.Bound, "points": r.Points, "file": "/verif/bounded/" + r.File,
			"label": "BOUNDED: evaluated on a grid by running the real code; not a proof and not counted under discharged"})
	}
	return out
}
