package main

// Replay of solver counterexamples against the real code: a throw-away
// in-package test is injected with `go test -overlay` (nothing is written to
// /repo), the function is run on the model's inputs and the violated clause
// is evaluated on what the real code returned.

import (
	"bytes"
	"encoding/json"
	"fmt"
	"go/types"
	"math"
	"math/big"
	"os"
	"os/exec"
	"path/filepath"
	"strings"

	"golang.org/x/tools/go/ssa"
)

type ReplayPlan struct {
	Kind      string // step | post | safety
	Fn        *ssa.Function
	Clause    *Clause
	Names     []string          // logical parameter names
	IndexName string            // loop index (step)
	PhiParam  map[string]string // header phi name -> source parameter it is initialised from
	PhiResult map[string]int    // header phi name -> result index it flows to
	NaNParams []string          // logical names of parameters that are NaN (NaN mode)
	Tables    []string          // array parameters that are tables, not time series (step replays)
}

type ReplayOutcome struct {
	Confirmed bool
	Reason    string
	Inputs    map[string]interface{}
	Observed  map[string]interface{}
	TestSrc   string
	TestOut   string
}

const maxElems = 12

// stepReplayValues collects the terms to read from a model for a step obligation.
func (fr *Frame) stepReplayValues(li *loopInfo, e *State) ([]namedTerm, *ReplayPlan) {
	c := fr.c
	if !fr.top {
		return nil, nil
	}
	plan := &ReplayPlan{Kind: "step", Fn: fr.fn, PhiParam: map[string]string{}, PhiResult: map[string]int{}}
	if fr.fc != nil {
		plan.Tables = fr.fc.Tables
	}
	var vals []namedTerm
	vals = append(vals, c.paramVals...)
	hs := li.headState
	var idx T
	// the loop index is the phi compared in the header's exit condition
	var condPhi *ssa.Phi
	if ifi, ok := li.header.Instrs[len(li.header.Instrs)-1].(*ssa.If); ok {
		if bo, ok := ifi.Cond.(*ssa.BinOp); ok {
			if p, ok := bo.X.(*ssa.Phi); ok && p.Block() == li.header {
				condPhi = p
			}
		}
	}
	for _, instr := range li.header.Instrs {
		phi, ok := instr.(*ssa.Phi)
		if !ok {
			break
		}
		name := phiName(phi)
		if t, ok := fr.vals[phi].(T); ok {
			vals = append(vals, namedTerm{"h/" + name, t})
		}
		// entry operand
		for k, p := range li.header.Preds {
			if li.blocks[p] {
				continue
			}
			switch op := phi.Edges[k].(type) {
			case *ssa.Parameter:
				plan.PhiParam[name] = op.Name()
			case *ssa.Const:
				if op.Value != nil && op.Value.ExactString() == "0" && phi.Type().Underlying().(*types.Basic).Info()&types.IsInteger != 0 {
					if plan.IndexName == "" && (condPhi == nil || condPhi == phi) {
						plan.IndexName = name
						idx, _ = fr.vals[phi].(T)
					}
				}
			}
		}
		// result it flows to
		for _, b := range fr.fn.Blocks {
			if ret, ok := b.Instrs[len(b.Instrs)-1].(*ssa.Return); ok {
				for ri, r := range ret.Results {
					if r == ssa.Value(phi) {
						plan.PhiResult[name] = ri
					}
				}
			}
		}
	}
	if idx.S == "" {
		return vals, nil
	}
	for i, p := range fr.fn.Params {
		switch v := fr.params[i].(type) {
		case IfaceV:
			if isNDIface(p.Type()) {
				v.Typ = p.Type()
				vals = append(vals, namedTerm{"at/" + p.Name(), c.sel(c.ndCells(hs, v), idx)})
				if fr.fc != nil && contains(fr.fc.Tables, p.Name()) {
					vals = append(vals, namedTerm{"nd/" + p.Name() + "/len", c.ndLen(v)})
					cells := c.ndCells(hs, v)
					for k := 0; k < maxElems; k++ {
						vals = append(vals, namedTerm{fmt.Sprintf("nd/%s/%d", p.Name(), k), c.sel(cells, intLit(int64(k)))})
					}
				}
			}
		case SliceV:
			if v.Elem == "" {
				continue
			}
			vals = append(vals, namedTerm{"sl/" + p.Name() + "/len", v.Len})
			h := c.heap(hs, "H."+string(v.Elem), heapSort(v.Elem))
			for k := 0; k < maxElems; k++ {
				vals = append(vals, namedTerm{fmt.Sprintf("sl/%s/%d", p.Name(), k), c.sel(c.sel(h, v.ID), app(SInt, "+", v.Off, intLit(int64(k))))})
			}
		}
	}
	return vals, plan
}

// postReplayValues: terms for a postcondition / safety obligation (entry state).
func (c *Ctx) postReplayValues(fr *Frame, st0 *State, kind string) ([]namedTerm, *ReplayPlan) {
	plan := &ReplayPlan{Kind: kind, Fn: fr.fn}
	if c.fc != nil {
		plan.NaNParams = c.fc.NaNParams
	}
	var vals []namedTerm
	vals = append(vals, c.paramVals...)
	for i, p := range fr.fn.Params {
		switch v := fr.params[i].(type) {
		case IfaceV:
			if isNDIface(p.Type()) {
				v.Typ = p.Type()
				vals = append(vals, namedTerm{"nd/" + p.Name() + "/len", c.ndLen(v)})
				cells := c.ndCells(st0, v)
				for k := 0; k < maxElems; k++ {
					vals = append(vals, namedTerm{fmt.Sprintf("nd/%s/%d", p.Name(), k), c.sel(cells, intLit(int64(k)))})
				}
			}
		case SliceV:
			if v.Elem == "" {
				continue
			}
			vals = append(vals, namedTerm{"sl/" + p.Name() + "/len", v.Len})
			h := c.heap(st0, "H."+string(v.Elem), heapSort(v.Elem))
			for k := 0; k < maxElems; k++ {
				vals = append(vals, namedTerm{fmt.Sprintf("sl/%s/%d", p.Name(), k), c.sel(c.sel(h, v.ID), app(SInt, "+", v.Off, intLit(int64(k))))})
			}
		}
	}
	return vals, plan
}

func ratToFloat(r *big.Rat) float64 {
	f, _ := r.Float64()
	return f
}

func goFloat(f float64) string {
	if math.IsInf(f, 1) {
		return "math.Inf(1)"
	}
	if math.IsInf(f, -1) {
		return "math.Inf(-1)"
	}
	if math.IsNaN(f) {
		return "math.NaN()"
	}
	s := fmt.Sprintf("%v", f)
	if !strings.ContainsAny(s, ".e") {
		s += ".0"
	}
	return "float64(" + s + ")"
}

// runReplay builds and runs the replay for a failed obligation.
func runReplay(r *OblResult, cs *Contracts) *ReplayOutcome {
	o := r.O
	plan := o.Replay
	out := &ReplayOutcome{Inputs: map[string]interface{}{}, Observed: map[string]interface{}{}}
	if plan == nil {
		out.Reason = "no replay plan for this kind of obligation"
		return out
	}
	vals := parseGetValue(r.Output)
	if len(vals) != len(o.Values) {
		out.Reason = fmt.Sprintf("model has %d values, %d requested", len(vals), len(o.Values))
		return out
	}
	model := map[string]*big.Rat{}
	for i, nt := range o.Values {
		if rv, ok := ratOf(vals[i]); ok {
			model[nt.Name] = rv
		}
	}
	fn := plan.Fn
	pkg := fn.Package()
	if pkg == nil {
		out.Reason = "function has no package"
		return out
	}
	inData := pkg.Pkg.Path() == modulePrefix+"/data"
	dq := "data."
	if inData {
		dq = ""
	}
	var sb strings.Builder
	var setup, args []string
	type ndp struct {
		name string
		n    int
	}
	var nds []ndp
	var slices []string
	inputs := map[string]interface{}{}
	lnames := paramNames(fn)
	if plan.Names != nil {
		lnames = plan.Names
	}
	for pi, p := range fn.Params {
		name := p.Name()
		v := "a_" + name
		isNaN := false
		for _, np := range plan.NaNParams {
			if np == lnames[pi] {
				isNaN = true
			}
		}
		switch t := p.Type().Underlying().(type) {
		case *types.Basic:
			src := "p/" + name
			if plan.Kind == "step" || plan.Kind == "inv" {
				for phi, par := range plan.PhiParam {
					if par == name {
						src = "h/" + phi
					}
				}
			}
			mv, ok := model[src]
			if !ok {
				mv = new(big.Rat)
			}
			switch {
			case t.Info()&types.IsFloat != 0:
				f := ratToFloat(mv)
				if isNaN {
					f = math.NaN()
				}
				setup = append(setup, fmt.Sprintf("var %s %s = %s(%s)", v, types.TypeString(p.Type(), nil), types.TypeString(p.Type(), nil), goFloat(f)))
				inputs[name] = f
			case t.Info()&types.IsInteger != 0:
				if !mv.IsInt() {
					out.Reason = "non-integral model value for " + name
					return out
				}
				if !mv.Num().IsInt64() || mv.Num().Int64() > 1<<24 || mv.Num().Int64() < -(1<<24) {
					out.Reason = "model value for " + name + " too large to replay"
					return out
				}
				setup = append(setup, fmt.Sprintf("var %s %s = %d", v, types.TypeString(p.Type(), nil), mv.Num().Int64()))
				inputs[name] = mv.Num().Int64()
			case t.Info()&types.IsBoolean != 0:
				setup = append(setup, fmt.Sprintf("var %s bool", v))
			default:
				out.Reason = "parameter type " + p.Type().String() + " not replayable"
				return out
			}
		case *types.Interface:
			if !isNDIface(p.Type()) || !strings.HasSuffix(p.Type().(*types.Named).Obj().Name(), "Float64") {
				out.Reason = "parameter type " + p.Type().String() + " not replayable"
				return out
			}
			var cells []float64
			if (plan.Kind == "step" || plan.Kind == "inv") && !contains(plan.Tables, name) {
				mv := model["at/"+name]
				if mv == nil {
					mv = new(big.Rat)
				}
				cells = []float64{ratToFloat(mv)}
			} else {
				ln := model["nd/"+name+"/len"]
				if ln == nil || !ln.IsInt() || ln.Num().Int64() > maxElems || ln.Num().Int64() < 0 {
					out.Reason = "array " + name + " too long in the model to replay"
					return out
				}
				for k := 0; k < int(ln.Num().Int64()); k++ {
					mv := model[fmt.Sprintf("nd/%s/%d", name, k)]
					if mv == nil {
						mv = new(big.Rat)
					}
					cells = append(cells, ratToFloat(mv))
				}
			}
			setup = append(setup, fmt.Sprintf("%s := %sNewArray1DFloat64(%d)", v, dq, len(cells)))
			for k, f := range cells {
				setup = append(setup, fmt.Sprintf("%s.Set1(%d, %s)", v, k, goFloat(f)))
			}
			nds = append(nds, ndp{name, len(cells)})
			inputs[name] = cells
		case *types.Slice:
			eb, ok := t.Elem().Underlying().(*types.Basic)
			if !ok {
				out.Reason = "parameter type " + p.Type().String() + " not replayable"
				return out
			}
			ln := model["sl/"+name+"/len"]
			if ln == nil || !ln.IsInt() || ln.Num().Int64() > maxElems || ln.Num().Int64() < 0 {
				out.Reason = "slice " + name + " too long in the model to replay"
				return out
			}
			var elems []string
			var fl []float64
			for k := 0; k < int(ln.Num().Int64()); k++ {
				mv := model[fmt.Sprintf("sl/%s/%d", name, k)]
				if mv == nil {
					mv = new(big.Rat)
				}
				if eb.Info()&types.IsFloat != 0 {
					elems = append(elems, goFloat(ratToFloat(mv)))
				} else {
					if !mv.IsInt() || !mv.Num().IsInt64() {
						out.Reason = "non-integral slice element"
						return out
					}
					elems = append(elems, mv.Num().String())
				}
				fl = append(fl, ratToFloat(mv))
			}
			setup = append(setup, fmt.Sprintf("%s := %s{%s}", v, types.TypeString(p.Type(), nil), strings.Join(elems, ", ")))
			slices = append(slices, name)
			inputs[name] = fl
		default:
			out.Reason = "parameter type " + p.Type().String() + " not replayable"
			return out
		}
		args = append(args, v)
	}
	out.Inputs = inputs
	if fn.Signature.Recv() != nil || fn.Parent() != nil {
		out.Reason = "methods and closures are not replayed directly"
		return out
	}
	rs := fn.Signature.Results()
	var rnames []string
	for i := 0; i < rs.Len(); i++ {
		rnames = append(rnames, fmt.Sprintf("r%d", i))
	}
	sb.WriteString("package " + pkg.Pkg.Name() + "\n\nimport (\n\t\"encoding/json\"\n\t\"fmt\"\n\t\"math\"\n\t\"testing\"\n")
	if !inData {
		sb.WriteString("\tdata \"" + modulePrefix + "/data\"\n")
	}
	sb.WriteString(")\n\nvar _ = math.Inf\nvar _ = fmt.Sprint\n")
	if !inData {
		sb.WriteString("var _ = data.NewArray1DFloat64\n")
	}
	sb.WriteString("\n")
	sb.WriteString("func owvcF(x interface{}) interface{} {\n\tswitch v := x.(type) {\n\tcase float64:\n\t\treturn fmt.Sprintf(\"%v\", v)\n\tcase []float64:\n\t\ts := []string{}\n\t\tfor _, e := range v {\n\t\t\ts = append(s, fmt.Sprintf(\"%v\", e))\n\t\t}\n\t\treturn s\n\tcase error:\n\t\tif v == nil {\n\t\t\treturn nil\n\t\t}\n\t\treturn v.Error()\n\t}\n\treturn x\n}\n\n")
	sb.WriteString("func TestOwvcReplay(t *testing.T) {\n\tout := map[string]interface{}{}\n\tdefer func() {\n\t\tif r := recover(); r != nil {\n\t\t\tout[\"panic\"] = fmt.Sprint(r)\n\t\t}\n\t\tb, _ := json.Marshal(out)\n\t\tfmt.Println(\"OWVC-REPLAY-BEGIN\")\n\t\tfmt.Println(string(b))\n\t\tfmt.Println(\"OWVC-REPLAY-END\")\n\t}()\n")
	for _, s := range setup {
		sb.WriteString("\t" + s + "\n")
	}
	call := fn.Name() + "(" + strings.Join(args, ", ") + ")"
	if len(rnames) > 0 {
		sb.WriteString("\t" + strings.Join(rnames, ", ") + " := " + call + "\n")
	} else {
		sb.WriteString("\t" + call + "\n")
	}
	for i, rn := range rnames {
		rt := rs.At(i).Type()
		if isNDIface(rt) {
			sb.WriteString(fmt.Sprintf("\tif %s != nil {\n\t\tout[\"%s\"] = owvcF(%s.Unroll())\n\t}\n", rn, rn, rn))
		} else {
			sb.WriteString(fmt.Sprintf("\tout[\"%s\"] = owvcF(%s)\n", rn, rn))
		}
	}
	for _, nd := range nds {
		sb.WriteString(fmt.Sprintf("\tout[\"nd/%s\"] = owvcF(a_%s.Unroll())\n", nd.name, nd.name))
	}
	for _, s := range slices {
		sb.WriteString(fmt.Sprintf("\tout[\"sl/%s\"] = owvcF(a_%s)\n", s, s))
	}
	_ = dq
	sb.WriteString("}\n")
	out.TestSrc = sb.String()

	// run it
	rel := strings.TrimPrefix(strings.TrimPrefix(pkg.Pkg.Path(), modulePrefix), "/")
	out.TestOut = execReplayTest(rel, out.TestSrc)
	i := strings.Index(out.TestOut, "OWVC-REPLAY-BEGIN")
	j := strings.Index(out.TestOut, "OWVC-REPLAY-END")
	if i < 0 || j < i {
		out.Reason = "replay produced no result: " + firstLines(out.TestOut, 6)
		return out
	}
	var obs map[string]interface{}
	if err := json.Unmarshal([]byte(strings.TrimSpace(out.TestOut[i+len("OWVC-REPLAY-BEGIN"):j])), &obs); err != nil {
		out.Reason = "cannot parse replay output"
		return out
	}
	out.Observed = obs
	if pmsg, ok := obs["panic"]; ok {
		if plan.Kind == "safety" {
			out.Confirmed = true
			out.Reason = fmt.Sprintf("the real code panics on the model's input: %v", pmsg)
			return out
		}
		out.Confirmed = true
		out.Reason = fmt.Sprintf("the real code panics on the model's input instead of establishing the clause: %v", pmsg)
		return out
	}
	if plan.Kind == "safety" {
		if o.Kind == "div0" || o.Kind == "domain" {
			// a real division by zero / out-of-domain call does not panic: it shows as NaN or Inf
			if strings.Contains(out.TestOut[i:j], "NaN") || strings.Contains(out.TestOut[i:j], "Inf") {
				out.Confirmed = true
				out.Reason = "the real code produces NaN/Inf on the model's input (division by zero or out-of-domain math call)"
				return out
			}
		}
		out.Reason = "the real code did not panic on the model's input"
		return out
	}
	// evaluate the clause on the observed values
	getF := func(v interface{}) (float64, bool) {
		switch x := v.(type) {
		case string:
			var f float64
			if _, err := fmt.Sscan(x, &f); err == nil {
				return f, true
			}
			switch x {
			case "NaN":
				return math.NaN(), true
			case "+Inf":
				return math.Inf(1), true
			case "-Inf":
				return math.Inf(-1), true
			}
		case float64:
			return x, true
		}
		return 0, false
	}
	getFs := func(v interface{}) []float64 {
		var r []float64
		if xs, ok := v.([]interface{}); ok {
			for _, x := range xs {
				f, _ := getF(x)
				r = append(r, f)
			}
		}
		return r
	}
	env := &CEnv{cs: cs, names: map[string]interface{}{}, old: map[string]interface{}{}}
	names := paramNames(fn)
	if plan.Names != nil {
		names = plan.Names
	}
	for i, p := range fn.Params {
		ln := names[i]
		switch t := p.Type().Underlying().(type) {
		case *types.Basic:
			if t.Info()&types.IsFloat != 0 {
				env.names[ln] = inputs[p.Name()].(float64)
			} else if t.Info()&types.IsInteger != 0 {
				env.names[ln] = inputs[p.Name()].(int64)
			}
			env.old[ln] = env.names[ln]
		case *types.Interface:
			env.names[ln] = &CND{getFs(obs["nd/"+p.Name()])}
			env.old[ln] = &CND{inputs[p.Name()].([]float64)}
		case *types.Slice:
			fl := getFs(obs["sl/"+p.Name()])
			if eb := t.Elem().Underlying().(*types.Basic); eb.Info()&types.IsInteger != 0 {
				var is, os_ []int64
				for _, f := range fl {
					is = append(is, int64(f))
				}
				for _, f := range inputs[p.Name()].([]float64) {
					os_ = append(os_, int64(f))
				}
				env.names[ln] = is
				env.old[ln] = os_
			} else {
				env.names[ln] = fl
				env.old[ln] = inputs[p.Name()].([]float64)
			}
		}
	}
	resVal := func(i int) interface{} {
		rt := rs.At(i).Type()
		raw := obs[fmt.Sprintf("r%d", i)]
		switch t := rt.Underlying().(type) {
		case *types.Basic:
			if t.Info()&types.IsFloat != 0 {
				f, _ := getF(raw)
				return f
			}
			if t.Info()&types.IsInteger != 0 {
				f, _ := getF(raw)
				return int64(f)
			}
			if t.Info()&types.IsBoolean != 0 {
				b, _ := raw.(bool)
				return b
			}
		case *types.Slice:
			fl := getFs(raw)
			if eb, ok := t.Elem().Underlying().(*types.Basic); ok && eb.Info()&types.IsInteger != 0 {
				var is []int64
				for _, f := range fl {
					is = append(is, int64(f))
				}
				return is
			}
			return fl
		case *types.Interface:
			if isNDIface(rt) {
				return &CND{getFs(raw)}
			}
		}
		return nil
	}
	var clause *Clause = plan.Clause
	if clause == nil {
		out.Reason = "no clause to evaluate"
		return out
	}
	if plan.Kind == "inv" {
		// the invariant is evaluated on the values after one iteration from the
		// model's loop-head state: carried names denote the returned states
		if plan.IndexName != "" {
			env.names[plan.IndexName] = int64(1)
		}
		for phi, ri := range plan.PhiResult {
			if v := resVal(ri); v != nil {
				env.names[phi] = v
			}
		}
		for phi := range plan.PhiParam {
			if _, ok := plan.PhiResult[phi]; !ok {
				delete(env.names, phi)
			}
		}
	} else if plan.Kind == "step" {
		env.pre = map[string]interface{}{}
		env.post = map[string]interface{}{}
		if plan.IndexName != "" {
			env.names[plan.IndexName] = int64(0)
		}
		for phi, par := range plan.PhiParam {
			if v, ok := inputs[par]; ok {
				env.pre[phi] = v
				env.names[phi] = v
			}
		}
		for phi, ri := range plan.PhiResult {
			if v := resVal(ri); v != nil {
				env.post[phi] = v
			}
		}
		// carried slices: pre = input contents, post = contents after the run
		for i, p := range fn.Params {
			if _, ok := p.Type().Underlying().(*types.Slice); ok {
				env.pre[names[i]] = env.old[names[i]]
				env.post[names[i]] = env.names[names[i]]
			}
		}
	} else {
		fc := cs.Funcs[funcKey(fn)]
		for i := 0; i < rs.Len(); i++ {
			v := resVal(i)
			if v == nil {
				continue
			}
			env.names[fmt.Sprintf("r%d", i)] = v
			if fc != nil && i < len(fc.Results) {
				env.names[fc.Results[i]] = v
			} else if n := rs.At(i).Name(); n != "" && n != "_" {
				if _, clash := env.names[n]; !clash {
					env.names[n] = v
				}
			}
			if rs.Len() == 1 {
				env.names["result"] = v
			}
		}
	}
	holds, why := env.evalClause(clause.Expr)
	if why != "" {
		out.Reason = "the clause cannot be evaluated on the observed run: " + why
		return out
	}
	if holds {
		out.Reason = "the clause holds (within tolerance) on the real code for the model's input"
		return out
	}
	out.Confirmed = true
	out.Reason = "the clause is false on the real code for the model's input"
	return out
}

// execReplayTest injects the test source into package dir rel (relative to
// the repository root) through an overlay, builds the test binary and runs it
// under a memory limit. Returns the combined output.
func execReplayTest(rel, src string) string {
	tmp, err := os.MkdirTemp("", "owvc-replay-")
	if err != nil {
		return err.Error()
	}
	defer os.RemoveAll(tmp)
	if rel == "io" {
		return execExtractedIOTest(tmp, src)
	}
	testFile := filepath.Join(tmp, "zz_owvc_replay_test.go")
	os.WriteFile(testFile, []byte(src), 0o644)
	ov := map[string]map[string]string{"Replace": {filepath.Join(repoRoot, rel, "zz_owvc_replay_test.go"): testFile}}
	ovb, _ := json.Marshal(ov)
	ovFile := filepath.Join(tmp, "overlay.json")
	os.WriteFile(ovFile, ovb, 0o644)
	bin := filepath.Join(tmp, "replay.test")
	build := exec.Command("go", "test", "-tags", "verif", "-overlay", ovFile, "-vet=off", "-c", "-o", bin, "./"+rel)
	build.Dir = repoRoot
	build.Env = append(os.Environ(), "GOFLAGS=-mod=mod", "GOPROXY=off", "GOSUMDB=off", "GOTOOLCHAIN=local")
	var bout bytes.Buffer
	build.Stdout, build.Stderr = &bout, &bout
	if err := build.Run(); err != nil {
		return "replay test does not build: " + bout.String()
	}
	run := exec.Command("bash", "-c", fmt.Sprintf("ulimit -v 8000000; cd %s && %s -test.run '^TestOwvcReplay$' -test.timeout 60s", filepath.Join(repoRoot, rel), bin))
	var rout bytes.Buffer
	run.Stdout, run.Stderr = &rout, &rout
	run.Run()
	return rout.String()
}

// execExtractedIOTest: package io cannot be built here (libhdf5 is absent). Its
// two functions that do not call the library (sliceSize, makeHyperslab) are
// extracted verbatim from /repo/io/hdf5_util.go into a scratch module and the
// replay test runs against that text.
func execExtractedIOTest(tmp, src string) string {
	b, err := os.ReadFile(filepath.Join(repoRoot, "io", "hdf5_util.go"))
	if err != nil {
		return err.Error()
	}
	extract := func(name string) string {
		text := string(b)
		i := strings.Index(text, "\nfunc "+name+"(")
		if i < 0 {
			return ""
		}
		j := strings.Index(text[i+1:], "\n}\n")
		if j < 0 {
			return ""
		}
		return text[i+1 : i+1+j+3]
	}
	ext := "package io\n\nimport \"github.com/flowmatters/openwater-core/util/m\"\n\n" + extract("makeHyperslab") + "\n" + extract("sliceSize") + "\n"
	os.WriteFile(filepath.Join(tmp, "extracted.go"), []byte(ext), 0o644)
	os.WriteFile(filepath.Join(tmp, "zz_owvc_replay_test.go"), []byte(src), 0o644)
	os.WriteFile(filepath.Join(tmp, "go.mod"), []byte("module ioextract\n\ngo 1.12\n\nrequire github.com/flowmatters/openwater-core v0.0.0\n\nreplace github.com/flowmatters/openwater-core => "+repoRoot+"\n"), 0o644)
	if sum, err := os.ReadFile(filepath.Join(repoRoot, "go.sum")); err == nil {
		os.WriteFile(filepath.Join(tmp, "go.sum"), sum, 0o644)
	}
	run := exec.Command("go", "test", "-vet=off", "-count=1", "-timeout", "60s", "-run", "^TestOwvcReplay$", ".")
	run.Dir = tmp
	run.Env = append(os.Environ(), "GOFLAGS=-mod=mod", "GOPROXY=off", "GOSUMDB=off", "GOTOOLCHAIN=local")
	var out bytes.Buffer
	run.Stdout, run.Stderr = &out, &out
	run.Run()
	return out.String()
}
