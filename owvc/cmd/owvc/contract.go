package main

// Parser for the //@ contract files (comment-only, build tag verif) kept
// beside the code in /repo/<pkg>/verif_contracts.go.

import (
	"fmt"
	"go/ast"
	"go/parser"
	"os"
	"path/filepath"
	"regexp"
	"strconv"
	"strings"
)

type Clause struct {
	Kind  string // requires ensures invariant step assert lemma axiom cover
	Label string // e.g. C11.musk-step (first label)
	Props []string
	Expr  ast.Expr
	Src   string
	Loop  int
	File  string
	Line  int
	// for callsite clauses
	Callee string
	Anchor string // assert at "text": source text identifying the line
	Using  []string // lemma instances that are hypotheses of this clause only (step and assert-at clauses)
	Ord    int
}

type CarrySpec struct {
	Name   string // loop variable (source name of the header phi or slice)
	Param  string // state parameter bound on entry
	Result int    // index of the result it flows to (-1: none)
}

type FuncContract struct {
	Pkg           string // package path
	Name          string // muskingum, (*ndFloat64).Get, f$1
	Params        []string
	Results       []string
	Clauses       []*Clause
	Unroll        map[int]int
	PanicsAllowed bool
	NoAlias       bool
	Trusted       string
	Assigns       []string
	HasAssigns    bool
	TimeLoop      int // ordinal of the time loop, -1 if none
	TimeIndex     string
	Carries       []CarrySpec
	Ghosts        [][2]string // name, type
	Inline        bool
	File          string
	Line          int
	Safety        []string
	SafetyKinds   []string
	Variant       string
	NaNParams     []string
	Nullable      []string
	Tables        []string
	Kernel        bool
	States        []string
	HasStates     bool
	Normalised    []string
	CausalByEnsures bool
	StructuralOnly  bool
	Derived         []string
	Approx          []string
	NDIfaceOnly     bool // "ndmodel interface": ND values are used through the interface contracts only (no static dispatch on a known dynamic type)
	BoundedNote     string // "bounded <note>": every obligation of this function is counted as bounded (not proved), with this note
	RowMajorForm    string
	RowMajor        bool // "ndmodel rowmajor": ND values of unknown dynamic type follow the general-rank interface contracts "iface rowmajor:Method"
	LocModel        bool
	SimplifyIDs     bool // "simplify entry-ids"
	ChainEnsures    bool // "chain ensures": each postcondition may assume the ones listed before it
	ViewsUnchecked  bool // "views unchecked": Slice may describe a view that extends beyond its parent (Slice itself checks nothing)
	Fresh           []string
	Locals          []string
	HasAssertAt     bool
	LoopSigs        []string
	UseLemmas       []string
	Instantiate2    []string // labels of lemmas instantiated inside loops
	Instantiate     []string // "LABEL(e1, ..., en)": ground instances of induction lemmas assumed at entry
	DynTypes        map[string]string // result name -> concrete struct type name
}

type SpecFunc struct {
	Name   string
	Params [][2]string // name, type
	Ret    string
	Body   ast.Expr // nil: uninterpreted
	Opaque bool     // kept as a function symbol with a defining axiom (usable as a quantifier trigger)
	Src    string
	File   string
	Line   int
}

// Induct: a lemma proved by induction on an integer variable. Vars are the
// other universally quantified variables (ints, reals or sequences).
type Induct struct {
	Label string
	Props []string
	Vars  [][2]string // name, type
	N     string
	Body  ast.Expr
	Src   string
	File  string
	Line  int
	Using []string // labels of earlier induction lemmas whose conclusions may be assumed in base and step
}

type Contracts struct {
	Inducts []*Induct
	Funcs  map[string]*FuncContract // key: pkgpath + "." + name
	Ifaces map[string]*FuncContract // key: method name (ND family), e.g. "Get"
	Specs  map[string]*SpecFunc
	Axioms []*Clause
	Lemmas []*Clause
	Files  []string
	Trusted []string
}

var labelRe = regexp.MustCompile(`^\[([^\]]+)\]\s*`)

func parseLabel(s string) (label string, props []string, rest string) {
	m := labelRe.FindStringSubmatch(s)
	if m == nil {
		return "", nil, s
	}
	rest = s[len(m[0]):]
	for i, l := range strings.Split(m[1], ",") {
		l = strings.TrimSpace(l)
		if i == 0 {
			label = l
		}
		if j := strings.Index(l, "."); j > 0 {
			props = append(props, l[:j])
		}
	}
	return
}

func parseExprSrc(src, file string, line int) ast.Expr {
	e, err := parser.ParseExpr(src)
	if err != nil {
		fatalf("%s:%d: cannot parse contract expression %q: %v", file, line, src, err)
	}
	return e
}

func splitNames(s string) []string {
	s = strings.TrimSpace(s)
	if s == "" {
		return nil
	}
	var out []string
	for _, p := range strings.Split(s, ",") {
		out = append(out, strings.TrimSpace(p))
	}
	return out
}

var funcLineRe = regexp.MustCompile(`^(func|iface)\s+(\S+?)\s*(?:\(([^)]*)\))?\s*(?:returns\s*\(([^)]*)\))?\s*$`)
var funcLineRecvRe = regexp.MustCompile(`^(func|iface)\s+(\(\*?[A-Za-z0-9_{}]+\)\.[A-Za-z0-9_$]+)\s*(?:\(([^)]*)\))?\s*(?:returns\s*\(([^)]*)\))?\s*$`)

// loadContracts reads every verif_contracts*.go under root for the given
// package directories (relative import path -> dir).
func loadContracts(pkgDirs map[string]string) *Contracts {
	cs := &Contracts{Funcs: map[string]*FuncContract{}, Ifaces: map[string]*FuncContract{}, Specs: map[string]*SpecFunc{}}
	seen := map[string]bool{}
	for pkgPath, dir := range pkgDirs {
		matches, _ := filepath.Glob(filepath.Join(dir, "verif_contracts*.go"))
		for _, f := range matches {
			if seen[f] {
				continue
			}
			seen[f] = true
			cs.Files = append(cs.Files, f)
			parseContractFile(cs, pkgPath, f)
		}
	}
	return cs
}

func parseContractFile(cs *Contracts, pkgPath, file string) {
	data, err := os.ReadFile(file)
	if err != nil {
		fatalf("read %s: %v", file, err)
	}
	// join continuation lines
	type ln struct {
		s string
		n int
	}
	var lines []ln
	for i, raw := range strings.Split(string(data), "\n") {
		t := strings.TrimSpace(raw)
		if strings.HasPrefix(t, "//@+") {
			if len(lines) == 0 {
				fatalf("%s:%d: continuation without directive", file, i+1)
			}
			lines[len(lines)-1].s += " " + strings.TrimSpace(t[4:])
			continue
		}
		if !strings.HasPrefix(t, "//@") {
			continue
		}
		t = strings.TrimSpace(t[3:])
		if t == "" || strings.HasPrefix(t, "#") {
			continue
		}
		lines = append(lines, ln{t, i + 1})
	}
	// {T} expansion: a "types {T} = A,B,C" directive makes every following func
	// block whose header mentions {T} one block per listed type
	var typeList []string
	var expanded []ln
	for i := 0; i < len(lines); i++ {
		l := lines[i]
		if strings.HasPrefix(l.s, "types ") {
			if j := strings.Index(l.s, "="); j > 0 {
				typeList = splitNames(l.s[j+1:])
			}
			continue
		}
		if (strings.HasPrefix(l.s, "func ") || strings.HasPrefix(l.s, "iface ")) && (strings.Contains(l.s, "{T}") || strings.Contains(l.s, "{t}")) {
			j := i + 1
			for j < len(lines) {
				w := lines[j].s
				if strings.HasPrefix(w, "func ") || strings.HasPrefix(w, "iface ") || strings.HasPrefix(w, "spec ") || strings.HasPrefix(w, "specu ") || strings.HasPrefix(w, "induct ") || strings.HasPrefix(w, "axiom ") || strings.HasPrefix(w, "lemma ") || strings.HasPrefix(w, "types ") {
					break
				}
				j++
			}
			for _, ty := range typeList {
				for _, bl := range lines[i:j] {
					lower := strings.ToLower(ty)
					if ty == "ArrayType" {
						lower = ty // the genny template type keeps its spelling
					}
					expanded = append(expanded, ln{strings.ReplaceAll(strings.ReplaceAll(bl.s, "{T}", ty), "{t}", lower), bl.n})
				}
			}
			i = j - 1
			continue
		}
		expanded = append(expanded, l)
	}
	lines = expanded
	var cur *FuncContract
	for _, l := range lines {
		s := l.s
		word := s
		rest := ""
		if i := strings.IndexAny(s, " \t"); i >= 0 {
			word, rest = s[:i], strings.TrimSpace(s[i+1:])
		}
		switch word {
		case "spec", "specu":
			cur = nil
			sp := parseSpec(rest, file, l.n)
			sp.Opaque = word == "specu"
			cs.Specs[sp.Name] = sp
		case "induct":
			// induct [label] (a []int, b []int) n : P(n)
			cur = nil
			label, props, r := parseLabel(rest)
			var using []string
			if strings.HasPrefix(r, "using ") {
				p := strings.Index(r, "(")
				if p < 0 {
					fatalf("%s:%d: bad induct directive", file, l.n)
				}
				// the variable list is the last parenthesised group before " n :"
				p = strings.LastIndex(r[:strings.Index(r, ":")], "(")
				using = splitTopLevel(strings.TrimPrefix(r[:p], "using "))
				r = r[p:]
			}
			i := strings.Index(r, "(")
			j := strings.Index(r, ")")
			k := strings.Index(r, ":")
			if i != 0 || j < 0 || k < j {
				fatalf("%s:%d: bad induct directive", file, l.n)
			}
			ind := &Induct{Label: label, Props: props, File: file, Line: l.n, Using: using}
			for _, p := range splitNames(r[i+1 : j]) {
				f := strings.Fields(p)
				if len(f) != 2 {
					fatalf("%s:%d: bad induct variable %q", file, l.n, p)
				}
				ind.Vars = append(ind.Vars, [2]string{f[0], f[1]})
			}
			ind.N = strings.TrimSpace(r[j+1 : k])
			ind.Src = strings.TrimSpace(r[k+1:])
			ind.Body = parseExprSrc(ind.Src, file, l.n)
			dup := false
			for _, x := range cs.Inducts {
				if x.Label == ind.Label {
					dup = true
				}
			}
			if !dup {
				cs.Inducts = append(cs.Inducts, ind)
			}
		case "axiom", "lemma":
			cur = nil
			label, props, r := parseLabel(rest)
			c := &Clause{Kind: word, Label: label, Props: props, Src: r, Expr: parseExprSrc(r, file, l.n), File: file, Line: l.n}
			if word == "axiom" {
				cs.Axioms = append(cs.Axioms, c)
			} else {
				cs.Lemmas = append(cs.Lemmas, c)
			}
		case "func", "iface":
			m := funcLineRecvRe.FindStringSubmatch(s)
			if m == nil {
				m = funcLineRe.FindStringSubmatch(s)
			}
			if m == nil {
				fatalf("%s:%d: bad func line %q", file, l.n, s)
			}
			cur = &FuncContract{Pkg: pkgPath, Name: m[2], Params: splitNames(m[3]), Results: splitNames(m[4]),
				Unroll: map[int]int{}, TimeLoop: -1, File: file, Line: l.n}
			if m[1] == "iface" {
				cs.Ifaces[m[2]] = cur
			} else {
				// "name#variant": a further contract of the same function, verified
				// separately (never used at call sites)
				if i := strings.Index(m[2], "#"); i > 0 {
					cur.Name = m[2][:i]
					cur.Variant = m[2][i+1:]
				}
				cs.Funcs[pkgPath+"."+m[2]] = cur
			}
		default:
			if cur == nil {
				fatalf("%s:%d: directive %q outside a func block", file, l.n, word)
			}
			parseFuncDirective(cur, word, rest, file, l.n)
		}
	}
}

func parseSpec(rest, file string, line int) *SpecFunc {
	// NAME(a int, b real) real = expr     |   NAME(a int) real     (uninterpreted)
	i := strings.Index(rest, "(")
	j := strings.Index(rest, ")")
	if i < 0 || j < i {
		fatalf("%s:%d: bad spec %q", file, line, rest)
	}
	sp := &SpecFunc{Name: strings.TrimSpace(rest[:i]), File: file, Line: line}
	for _, p := range splitNames(rest[i+1 : j]) {
		f := strings.Fields(p)
		if len(f) != 2 {
			fatalf("%s:%d: bad spec param %q", file, line, p)
		}
		sp.Params = append(sp.Params, [2]string{f[0], f[1]})
	}
	tail := strings.TrimSpace(rest[j+1:])
	if k := strings.Index(tail, "="); k >= 0 {
		sp.Ret = strings.TrimSpace(tail[:k])
		sp.Src = strings.TrimSpace(tail[k+1:])
		sp.Body = parseExprSrc(sp.Src, file, line)
	} else {
		sp.Ret = tail
	}
	return sp
}

func parseFuncDirective(fc *FuncContract, word, rest, file string, line int) {
	mk := func(kind, r string, loop int) *Clause {
		label, props, r2 := parseLabel(r)
		// "using L1(args); L2(args) : expr" - lemma instances that belong to this clause only
		var using []string
		if strings.HasPrefix(r2, "using ") {
			if i := strings.Index(r2, " : "); i > 0 {
				for _, u := range strings.Split(r2[len("using "):i], ";") {
					if u = strings.TrimSpace(u); u != "" {
						using = append(using, u)
						if j := strings.Index(u, "("); j > 0 {
							fc.Instantiate2 = append(fc.Instantiate2, strings.TrimSpace(u[:j]))
						}
					}
				}
				r2 = strings.TrimSpace(r2[i+3:])
			}
		}
		return &Clause{Kind: kind, Label: label, Props: props, Src: r2, Expr: parseExprSrc(r2, file, line), Loop: loop, File: file, Line: line, Using: using}
	}
	if word == "at" && strings.HasPrefix(strings.TrimSpace(rest), "\"") {
		// at "text" instantiate LABEL(args): a lemma instance assumed just before the anchored statement
		r := strings.TrimSpace(rest)[1:]
		q := strings.Index(r, "\"")
		tail := ""
		if q >= 0 {
			tail = strings.TrimSpace(r[q+1:])
		}
		if q < 0 || !strings.HasPrefix(tail, "instantiate ") {
			fatalf("%s:%d: bad at directive", file, line)
		}
		inst := strings.TrimSpace(strings.TrimPrefix(tail, "instantiate "))
		fc.Clauses = append(fc.Clauses, &Clause{Kind: "atinst", Anchor: r[:q], Src: inst, Loop: -1, File: file, Line: line})
		if i := strings.Index(inst, "("); i > 0 {
			fc.Instantiate2 = append(fc.Instantiate2, strings.TrimSpace(inst[:i]))
		}
		fc.HasAssertAt = true
		return
	}
	if word == "assert" && strings.HasPrefix(strings.TrimSpace(rest), "at \"") {
		// assert at "text" [label] expr
		r := strings.TrimSpace(rest)[4:]
		q := strings.Index(r, "\"")
		if q < 0 {
			fatalf("%s:%d: bad assert at directive", file, line)
		}
		cl := mk("assertat", strings.TrimSpace(r[q+1:]), -1)
		cl.Anchor = r[:q]
		fc.Clauses = append(fc.Clauses, cl)
		fc.HasAssertAt = true
		return
	}
	switch word {
	case "requires", "ensures", "assert", "cover", "canary":
		fc.Clauses = append(fc.Clauses, mk(word, rest, -1))
	case "atreturn":
		// atreturn K [label] expr: postcondition of the K-th return statement (source order, 0-based)
		f := strings.SplitN(rest, " ", 2)
		n, err := strconv.Atoi(f[0])
		if err != nil || len(f) < 2 {
			fatalf("%s:%d: bad atreturn directive", file, line)
		}
		fc.Clauses = append(fc.Clauses, mk("atreturn", strings.TrimSpace(f[1]), n))
	case "loop":
		f := strings.SplitN(rest, " ", 3)
		if len(f) < 3 {
			fatalf("%s:%d: bad loop directive", file, line)
		}
		n, err := strconv.Atoi(f[0])
		if err != nil {
			fatalf("%s:%d: bad loop ordinal", file, line)
		}
		if f[1] == "instantiate" || f[1] == "headinstantiate" {
			// loop N instantiate LABEL(args): a lemma instance assumed at the end of the body;
			// loop N headinstantiate LABEL(args): assumed at the loop head, after the invariant
			kind := "loopinst"
			if f[1] == "headinstantiate" {
				kind = "loopheadinst"
			}
			fc.Clauses = append(fc.Clauses, &Clause{Kind: kind, Src: strings.TrimSpace(f[2]), Loop: n, File: file, Line: line})
			if i := strings.Index(f[2], "("); i > 0 {
				fc.Instantiate2 = append(fc.Instantiate2, strings.TrimSpace(f[2][:i]))
			}
			return
		}
		if f[1] == "step" && strings.HasPrefix(strings.TrimSpace(f[2]), "instantiate ") {
			// loop N step instantiate LABEL(args): a lemma instance for the step clauses that follow it
			inst := strings.TrimSpace(strings.TrimPrefix(strings.TrimSpace(f[2]), "instantiate "))
			fc.Clauses = append(fc.Clauses, &Clause{Kind: "steplemma", Src: inst, Loop: n, File: file, Line: line})
			if i := strings.Index(inst, "("); i > 0 {
				fc.Instantiate2 = append(fc.Instantiate2, strings.TrimSpace(inst[:i]))
			}
			return
		}
		switch f[1] {
		case "invariant", "step", "prestep":
			fc.Clauses = append(fc.Clauses, mk(f[1], strings.TrimSpace(f[2]), n))
		case "unroll":
			k, err := strconv.Atoi(strings.TrimSpace(f[2]))
			if err != nil {
				fatalf("%s:%d: bad unroll count", file, line)
			}
			fc.Unroll[n] = k
		default:
			fatalf("%s:%d: unknown loop directive %q", file, line, f[1])
		}
	case "bounded":
		fc.BoundedNote = strings.TrimSpace(rest)
	case "simplify":
		fc.SimplifyIDs = strings.TrimSpace(rest) == "entry-ids"
	case "chain":
		fc.ChainEnsures = strings.TrimSpace(rest) == "ensures"
	case "views":
		fc.ViewsUnchecked = strings.TrimSpace(rest) == "unchecked"
	case "panics":
		fc.PanicsAllowed = strings.TrimSpace(rest) == "allowed"
	case "noalias":
		fc.NoAlias = true
	case "structural":
		fc.StructuralOnly = strings.TrimSpace(rest) == "only"
	case "kernel":
		fc.Kernel = true
		if strings.TrimSpace(rest) == "causal-by-ensures" {
			fc.CausalByEnsures = true
		}
	case "atexit":
		// atexit instantiate LABEL(args): a lemma instance over results and locals, assumed at the return
		r := strings.TrimSpace(rest)
		if !strings.HasPrefix(r, "instantiate ") {
			fatalf("%s:%d: atexit supports only `instantiate`", file, line)
		}
		inst := strings.TrimSpace(strings.TrimPrefix(r, "instantiate "))
		fc.Clauses = append(fc.Clauses, &Clause{Kind: "exitinst", Src: inst, Loop: -1, File: file, Line: line})
		if i := strings.Index(inst, "("); i > 0 {
			fc.Instantiate2 = append(fc.Instantiate2, strings.TrimSpace(inst[:i]))
		}
	case "instantiate":
		fc.Instantiate = append(fc.Instantiate, strings.TrimSpace(rest))
	case "states":
		fc.HasStates = true
		if strings.TrimSpace(rest) != "none" {
			fc.States = append(fc.States, splitNames(rest)...)
		}
	case "dyntype":
		// dyntype r nd{t}: the dynamic type of interface result r is *nd{t}
		f := strings.Fields(rest)
		if len(f) != 2 {
			fatalf("%s:%d: bad dyntype", file, line)
		}
		if fc.DynTypes == nil {
			fc.DynTypes = map[string]string{}
		}
		fc.DynTypes[f[0]] = f[1]
	case "uses":
		// uses lemma-label, ...: make the conclusion of an induction lemma available
		fc.UseLemmas = append(fc.UseLemmas, splitNames(rest)...)
	case "loopsigs":
		// loopsigs h0 h1 ...: hash of every loop statement in source order when the contract was written
		fc.LoopSigs = append(fc.LoopSigs, strings.Fields(rest)...)
	case "locals":
		// locals a, b, c: the locals the function declared, in source order, when the
		// contract was written (lets the contract survive a renamed local)
		fc.Locals = append(fc.Locals, splitNames(rest)...)
	case "fresh":
		// fresh r: the named result is a newly allocated object
		fc.Fresh = append(fc.Fresh, splitNames(rest)...)
	case "ndmodel":
		fc.LocModel = strings.TrimSpace(rest) == "locations"
		fc.NDIfaceOnly = strings.TrimSpace(rest) == "interface"
		fc.RowMajor = strings.TrimSpace(rest) == "rowmajor" || strings.HasPrefix(strings.TrimSpace(rest), "rowmajor/")
		if fc.RowMajor {
			// "rowmajor/V": interface contracts "iface rowmajor/V:Method" take precedence over "iface rowmajor:Method"
			fc.RowMajorForm = strings.TrimSpace(rest)
		}
	case "atsend":
		// atsend [label] expr: holds when the goroutine body signals completion (channel send)
		fc.Clauses = append(fc.Clauses, mk("atsend", rest, -1))
	case "writes":
		// writes [label] expr over wroot, widx: cells the function may write (location model)
		fc.Clauses = append(fc.Clauses, mk("writes", rest, -1))
	case "approx":
		// approx NAME: carried only as a starting guess of an iterative solver
		fc.Approx = append(fc.Approx, splitNames(rest)...)
	case "derived":
		// derived NAME = expr : a loop-carried variable that is a function of the
		// carried states (proved as an invariant of the time loop)
		fc.Derived = append(fc.Derived, rest)
	case "carries-normalised":
		fc.Normalised = append(fc.Normalised, splitNames(rest)...)
	case "tables":
		fc.Tables = append(fc.Tables, splitNames(rest)...)
	case "nullable":
		fc.Nullable = append(fc.Nullable, splitNames(rest)...)
	case "nan":
		fc.NaNParams = append(fc.NaNParams, strings.Fields(rest)...)
	case "safety":
		// safety C10 C11 [kinds=bounds,div0,...]
		for _, f := range strings.Fields(rest) {
			if strings.HasPrefix(f, "kinds=") {
				fc.SafetyKinds = strings.Split(strings.TrimPrefix(f, "kinds="), ",")
			} else {
				fc.Safety = append(fc.Safety, f)
			}
		}
	case "callsite":
		// callsite CALLEE [label] expr over arg0..argN
		f := strings.SplitN(rest, " ", 2)
		if len(f) != 2 {
			fatalf("%s:%d: bad callsite", file, line)
		}
		if r := strings.TrimSpace(f[1]); strings.HasPrefix(r, "instantiate ") {
			// callsite CALLEE instantiate LABEL(args): a lemma instance assumed just before the call
			inst := strings.TrimSpace(strings.TrimPrefix(r, "instantiate "))
			fc.Clauses = append(fc.Clauses, &Clause{Kind: "callinst", Callee: f[0], Src: inst, Loop: -1, File: file, Line: line})
			if i := strings.Index(inst, "("); i > 0 {
				fc.Instantiate2 = append(fc.Instantiate2, strings.TrimSpace(inst[:i]))
			}
			return
		}
		cl := mk("callsite", strings.TrimSpace(f[1]), -1)
		cl.Callee = f[0]
		fc.Clauses = append(fc.Clauses, cl)
	case "callarg":
		// callarg fnparam [label] expr-over-arg
		f := strings.SplitN(rest, " ", 2)
		if len(f) != 2 {
			fatalf("%s:%d: bad callarg", file, line)
		}
		cl := mk("callarg", strings.TrimSpace(f[1]), -1)
		cl.Callee = f[0]
		fc.Clauses = append(fc.Clauses, cl)
	case "inline":
		fc.Inline = true
	case "trusted":
		fc.Trusted = rest
		if fc.Trusted == "" {
			fc.Trusted = "assumed contract"
		}
	case "assigns":
		fc.HasAssigns = true
		if strings.TrimSpace(rest) != "nothing" {
			fc.Assigns = append(fc.Assigns, splitNames(rest)...)
		}
	case "ghost":
		f := strings.Fields(rest)
		if len(f) != 2 {
			fatalf("%s:%d: bad ghost", file, line)
		}
		fc.Ghosts = append(fc.Ghosts, [2]string{f[0], f[1]})
	case "timeloop":
		// timeloop N index i carries (a = p -> 0, b = q -> 1)
		re := regexp.MustCompile(`^(\d+)\s+index\s+(\w+)(?:\s+carries\s*\((.*)\))?\s*$`)
		m := re.FindStringSubmatch(rest)
		if m == nil {
			fatalf("%s:%d: bad timeloop directive %q", file, line, rest)
		}
		fc.TimeLoop, _ = strconv.Atoi(m[1])
		fc.TimeIndex = m[2]
		for _, c := range splitNames(m[3]) {
			cre := regexp.MustCompile(`^(\w+)\s*=\s*(\w+)\s*(?:->\s*(-?\d+))?$`)
			cm := cre.FindStringSubmatch(c)
			if cm == nil {
				fatalf("%s:%d: bad carry %q", file, line, c)
			}
			r := -1
			if cm[3] != "" {
				r, _ = strconv.Atoi(cm[3])
			}
			fc.Carries = append(fc.Carries, CarrySpec{cm[1], cm[2], r})
		}
	default:
		fatalf("%s:%d: unknown directive %q", file, line, word)
	}
}

func fatalf(format string, args ...interface{}) {
	fmt.Fprintf(os.Stderr, "owvc: internal error: "+format+"\n", args...)
	os.Exit(2)
}
