package main

// Verification-condition generator: symbolic execution of go/ssa function
// bodies with loops cut at their headers, calls replaced by contracts.

import (
	"hash/fnv"
	"go/printer"
	"bytes"
	"os"
	"sync"
	"fmt"
	"go/ast"
	"go/constant"
	"go/token"
	"go/types"
	"math"
	"math/big"
	"regexp"
	"sort"
	"strconv"
	"strings"

	"golang.org/x/tools/go/ssa"
)

type Obligation struct {
	Name      string
	Kind      string
	Label     string
	Props     []string
	Func      string
	Pos       string
	Text      string
	Prefix    int
	Reach     T
	Goal      T
	ExpectSat bool
	Values    []namedTerm // terms whose model values are requested
	ctx       *Ctx
	Bounded   string // non-empty: counted as bounded, with this note
	Replay    *ReplayPlan
	Structural bool // decided syntactically (frame checker), no SMT query
	Canary     bool // a deliberately false postcondition: must NOT be provable (self-test of the generator)
}

type namedTerm struct {
	Name string
	Term T
}

type Ctx struct {
	prog      *ssa.Program
	cs        *Contracts
	lines     []string
	nsym      int
	declared  map[string]bool
	initHeaps map[string]T
	heapSorts map[string]Sort
	obls      []*Obligation
	top       *ssa.Function
	fc        *FuncContract
	notes     map[string]bool // assumptions / trusted items encountered
	depth     int
	specMode  int // >0: evaluating a spec-level application (no obligations)
	paramVals []namedTerm
	mathApps  map[string][][]T
	oblCount  map[string]int
	fset      *token.FileSet
	callOrd   map[string]int
	inlineStack []string
	cellTypes map[string]types.Type
	writeLog  []writeRec
	inQuant   int
	nanSyms   []string
	topName   string
	topFrame  *Frame
	recips    map[string]T
	defOf     map[string]string
	stores    map[string]storeInfo
	ites      map[string][3]T // merged heaps: ite term -> (cond, then, else)
	ghost0      map[string]T // entry values of ghost variables
	distinctGrp map[string]int
	distinctPairs map[string]bool // "a|b": object ids required to differ by the precondition
	paramIDs  map[string]bool
	unfoldDepth int
	frameActive bool
	inUnrollHavoc bool
	inGo        int
	goAlloc     T
	locMode     bool
	frameAll    bool
	frameAllowed map[string][]T
	frameAllowedWholeField map[string]bool
	entryCut    int
	entryAlloc  T
	alloc0      T // allocation counter at function entry
}

type writeRec struct {
	heap string // heap name, or "" for a cell
	key  *T     // nil: whole heap
	cell string
	sort Sort
}

func (c *Ctx) setHeap(st *State, name string, v T, key *T) {
	st.heaps[name] = v
	if c.fc != nil && c.fc.RowMajor && c.specMode == 0 && key != nil && strings.HasPrefix(name, "H.") && !c.inUnrollHavoc {
		// general-rank interface model: the slice x.Unroll() returns is either a copy or
		// x's own storage (the interface does not say which), so after a write to that
		// object the elements of x are unknown
		c.unrollWriteHavoc(st, name, *key)
	}
	if c.frameActive && c.specMode == 0 && key != nil && c.inlineDepthOK() {
		c.frameObligation(st, name, *key)
	}
	if c.inGo > 0 && c.specMode == 0 && key != nil && strings.HasPrefix(name, "H.") && key.S != c.goAlloc.S {
		// a goroutine body may only write memory it allocated itself (index vectors,
		// scratch slices); everything captured from the spawning function is shared
		if !strings.HasPrefix(key.S, "(+ "+baseOfTerm(c.goAlloc.S)+" ") || !laterOffset(key.S, c.goAlloc.S) {
			c.oblige(st, "frame", "C05.shared-readonly", []string{"C05"}, app(SBool, ">=", *key, c.goAlloc), token.NoPos,
				fmt.Sprintf("a write in a goroutine body goes to memory allocated by that body (written object %s)", key.S))
		}
	}
	if _, ok := c.heapSorts[name]; !ok {
		c.heapSorts[name] = v.K
	}
	var k *T
	if key != nil {
		kk := *key
		k = &kk
	}
	c.writeLog = append(c.writeLog, writeRec{heap: name, key: k, sort: v.K})
}

func (c *Ctx) inlineDepthOK() bool { return true }

// unrollWriteHavoc: see setHeap. For every array parameter x of the function
// under contract whose element sort matches the written heap,
//   x.cells := ite(written object == x.g_unrollid, unknown, x.cells).
func (c *Ctx) unrollWriteHavoc(st *State, heap string, key T) {
	if c.topFrame == nil || c.topFrame.fn == nil || classifyKey(key.S, c.entryCut) == 1 {
		return
	}
	k := Sort(strings.TrimPrefix(heap, "H."))
	if i := strings.Index(string(k), "#"); i > 0 {
		k = k[:i]
	}
	c.inUnrollHavoc = true
	defer func() { c.inUnrollHavoc = false }()
	for _, p := range c.topFrame.fn.Params {
		x, ok := c.topFrame.vals[p].(IfaceV)
		if !ok || !isNDIface(p.Type()) || ndElemSort(p.Type()) != k {
			continue
		}
		c.declareFun("ghost.g_unrollid", []Sort{SInt}, SInt)
		name := "ND.cells." + string(k)
		c.unrollIDExists(app(SInt, "ghost.g_unrollid", x.Ref))
		hit := eq(key, app(SInt, "ghost.g_unrollid", x.Ref))
		assigned := !c.frameActive
		if os.Getenv("OWVC_DEBUG") != "" {
			fmt.Fprintf(os.Stderr, "unrollWriteHavoc %s key=%s frameActive=%v allowed=%v\n", heap, key.S, c.frameActive, c.frameAllowed)
		}
		for _, r := range c.frameAllowed[name] {
			if r.S == x.Ref.S {
				assigned = true
			}
		}
		if !assigned {
			// an array outside the assigns clause: the written object is not its unrolled storage
			c.oblige(st, "frame", "assigns", nil, app(SBool, "not", hit), token.NoPos,
				fmt.Sprintf("a write to %s[%s] does not reach the elements of %s (not in the assigns clause) through the slice its Unroll() returns", heap, key.S, p.Name()))
			c.assume(st.reach, app(SBool, "not", hit))
			continue
		}
		h := c.heap(st, name, heapSort(k))
		nv := ite(hit, c.fresh("cells_after_unroll_write", arrSort(k)), c.sel(h, x.Ref))
		ref := x.Ref
		st.heaps[name] = c.def("Hc", c.sto(h, ref, nv))
		c.writeLog = append(c.writeLog, writeRec{heap: name, key: &ref, sort: heapSort(k)})
	}
}

// frameObligation: a write to an object that existed at entry must be covered
// by the assigns clause (decided by SMT: the written object is fresh or is one
// of the assigned objects).
func (c *Ctx) frameObligation(st *State, heap string, key T) {
	if classifyKey(key.S, c.entryCut) == 1 || key.S == "0" {
		return
	}
	base := heap
	if i := strings.Index(heap, "#"); i > 0 {
		base = heap[:i]
	}
	var alts []T
	for _, a := range c.frameAllowed[base] {
		if a.S == key.S {
			return
		}
		alts = append(alts, eq(key, a))
	}
	if strings.HasPrefix(heap, "F.") && c.frameAllowed[base] == nil && c.frameAllowedWholeField[base] {
		return
	}
	alts = append(alts, app(SBool, ">=", key, c.entryAlloc))
	if c.fc != nil && c.fc.LocModel && strings.HasPrefix(heap, "F.") {
		// C14: Run / ApplyParameters store nothing into the model object beyond the declared fields
		c.oblige(st, "frame", "C14.receiver-frame", []string{"C14"}, or(alts...), token.NoPos,
			fmt.Sprintf("a store into %s stays within the assigns clause (no information is retained in the model object)", heap))
		return
	}
	c.oblige(st, "frame", "assigns", nil, or(alts...), token.NoPos, fmt.Sprintf("a write to %s[%s] stays within the assigns clause (assigned object or fresh memory)", heap, key.S))
}

func (c *Ctx) setCell(st *State, key string, v Val) {
	st.cells[key] = v
	c.writeLog = append(c.writeLog, writeRec{cell: key})
}

func newCtx(prog *ssa.Program, cs *Contracts) *Ctx {
	return &Ctx{prog: prog, cs: cs, declared: map[string]bool{}, initHeaps: map[string]T{}, heapSorts: map[string]Sort{},
		notes: map[string]bool{}, mathApps: map[string][][]T{}, oblCount: map[string]int{}, fset: prog.Fset, callOrd: map[string]int{}, cellTypes: map[string]types.Type{}}
}

func (c *Ctx) emit(s string) { c.lines = append(c.lines, s) }

func (c *Ctx) fresh(prefix string, k Sort) T {
	c.nsym++
	name := fmt.Sprintf("%s!%d", sanitize(prefix), c.nsym)
	c.emit(fmt.Sprintf("(declare-const %s %s)", name, k))
	return T{name, k}
}

func isAtomic(t T) bool {
	return !strings.HasPrefix(t.S, "(") || len(t.S) < atomicLimit
}

func (c *Ctx) def(prefix string, t T) T {
	if isAtomic(t) || c.inQuant > 0 {
		return t
	}
	n := c.fresh(prefix, t.K)
	c.emit(fmt.Sprintf("(assert (= %s %s))", n.S, t.S))
	if t.K.isArr() {
		if c.defOf == nil {
			c.defOf = map[string]string{}
		}
		c.defOf[n.S] = t.S
	}
	if c.isNaN(t) {
		c.nanSyms = append(c.nanSyms, n.S)
	}
	return n
}

// isNaN: in a NaN-mode verification, does the term depend on a NaN parameter?
func (c *Ctx) isNaN(t T) bool {
	for _, s := range c.nanSyms {
		if strings.Contains(t.S, s) {
			return true
		}
	}
	return false
}

func (c *Ctx) assume(reach, fact T) {
	if fact.S == "true" {
		return
	}
	c.emit(fmt.Sprintf("(assert %s)", implies(reach, fact).S))
}

func (c *Ctx) declareFun(name string, args []Sort, ret Sort) {
	if c.declared[name] {
		return
	}
	c.declared[name] = true
	var as []string
	for _, a := range args {
		as = append(as, string(a))
	}
	c.emit(fmt.Sprintf("(declare-fun %s (%s) %s)", name, strings.Join(as, " "), ret))
}

func (c *Ctx) heap(st *State, name string, k Sort) T {
	if h, ok := st.heaps[name]; ok {
		return h
	}
	h, ok := c.initHeaps[name]
	if !ok {
		h = c.fresh("H0_"+name, k)
		c.initHeaps[name] = h
		c.heapSorts[name] = k
	}
	st.heaps[name] = h
	return h
}

func (c *Ctx) note(s string) { c.notes[s] = true }

func (c *Ctx) oblige(st *State, kind, label string, props []string, goal T, pos token.Pos, text string) *Obligation {
	if c.specMode > 0 {
		return nil
	}
	if goal.S == "true" {
		// trivially discharged, still counted
	}
	fn := c.topName
	if c.top != nil {
		fn = c.top.String()
	}
	if c.fc != nil && c.fc.Variant != "" {
		fn += "#" + c.fc.Variant
	}
	base := fn + "/" + kind
	if label != "" {
		base += "/" + label
	}
	c.oblCount[base]++
	name := fmt.Sprintf("%s#%d", base, c.oblCount[base])
	o := &Obligation{Name: name, Kind: kind, Label: label, Props: props, Func: fn, Text: text,
		Prefix: len(c.lines), Reach: st.reach, Goal: goal, ctx: c, Values: c.paramVals}
	if pos.IsValid() {
		p := c.fset.Position(pos)
		o.Pos = fmt.Sprintf("%s:%d", p.Filename, p.Line)
	}
	if (safetyKinds[kind] || kind == "pre@call") && c.topFrame != nil && c.topFrame.old != nil {
		if vals, plan := c.postReplayValues(c.topFrame, c.topFrame.old, "safety"); plan != nil {
			if c.fc != nil && len(c.fc.Params) > 0 {
				plan.Names = c.fc.Params
			}
			o.Values = vals
			o.Replay = plan
		}
	}
	c.obls = append(c.obls, o)
	return o
}

// ------------------------------------------------------------------
// Frames

type loopInfo struct {
	header  *ssa.BasicBlock
	blocks  map[*ssa.BasicBlock]bool
	ordinal int
	parent  *loopInfo
	// state snapshot at the cut (after havoc) for pre() in step clauses
	headState *State
	entryVals map[*ssa.Phi]Val
}

type Frame struct {
	c      *Ctx
	fn     *ssa.Function
	fc     *FuncContract
	vals   map[ssa.Value]Val
	params []Val
	free   []Val
	top    bool
	loops  map[*ssa.BasicBlock]*loopInfo // by header
	inLoop map[*ssa.BasicBlock]*loopInfo // innermost loop of each block
	edges  map[[2]int]*State             // state carried by edge (from,to)
	rets   []retInfo
	names  map[string][]nameBinding // source variable name -> bindings
	renamed map[string]string       // contract name -> current name of a renamed local
	assertFired map[string]bool
	old    *State
	env0   map[string]Val // logical names of the contract (params, ghosts)
	ord    []*ssa.BasicBlock
	curBlock *ssa.BasicBlock
	timeLoop *loopInfo
	inputs   map[*ssa.Parameter]bool
	defers   []deferRec
}

type deferRec struct {
	d     *ssa.Defer
	reach T    // condition under which the defer statement was executed
	entry bool // in the entry block (always executed)
}

type retInfo struct {
	st   *State
	vals []Val
	blk  *ssa.BasicBlock
}

func (c *Ctx) freshVal(st *State, name string, t types.Type) Val {
	switch u := t.Underlying().(type) {
	case *types.Basic:
		k, ok := sortOfBasic(t)
		if !ok {
			return OpaqueV{t.String()}
		}
		v := c.fresh(name, k)
		if isUnsigned(t) {
			c.emit(fmt.Sprintf("(assert (>= %s 0))", v.S))
		}
		return v
	case *types.Slice:
		es, _ := sortOfBasic(u.Elem())
		// A-SLICE0: a slice that comes from outside (parameter, field, call result)
		// starts at the beginning of its backing array. Go code cannot observe the
		// position of a slice inside its array except through overlapping slices
		// of one array, which are excluded.
		sv := SliceV{c.fresh(name+"_id", SInt), intLit(0), c.fresh(name+"_len", SInt), es, u.Elem()}
		// nil slice: id 0, len 0; otherwise 0 < id < alloc
		c.emit(fmt.Sprintf("(assert (and (>= %s 0) (>= %s 0) (< %s %s) (=> (= %s 0) (= %s 0))))",
			sv.Len.S, sv.ID.S, sv.ID.S, st.alloc.S, sv.ID.S, sv.Len.S))
		return sv
	case *types.Pointer:
		if s, ok := u.Elem().Underlying().(*types.Struct); ok {
			r := c.fresh(name+"_ref", SInt)
			c.emit(fmt.Sprintf("(assert (and (>= %s 0) (< %s %s)))", r.S, r.S, st.alloc.S))
			return StructPtr{r, typeKey(u.Elem()), s, u.Elem()}
		}
		if at, ok := u.Elem().Underlying().(*types.Array); ok {
			if es, ok := sortOfBasic(at.Elem()); ok {
				id := c.fresh(name+"_aid", SInt)
				c.emit(fmt.Sprintf("(assert (and (>= %s 0) (< %s %s)))", id.S, id.S, st.alloc.S))
				return ArrPtr{id, es, at.Len()}
			}
		}
		return OpaqueV{t.String()}
	case *types.Interface:
		if isErrorType(t) {
			return ErrV{c.fresh(name+"_nil", SBool)}
		}
		r := c.fresh(name+"_iref", SInt)
		c.emit(fmt.Sprintf("(assert (and (>= %s 0) (< %s %s)))", r.S, r.S, st.alloc.S))
		return IfaceV{Ref: r, Typ: t}
	case *types.Signature:
		c.nsym++
		return FuncV{Sym: fmt.Sprintf("uf_%s!%d", sanitize(name), c.nsym), Sig: u}
	case *types.Tuple:
		tv := make(TupleV, u.Len())
		for i := 0; i < u.Len(); i++ {
			tv[i] = c.freshVal(st, fmt.Sprintf("%s_%d", name, i), u.At(i).Type())
		}
		return tv
	case *types.Struct:
		// a struct value: an object of its own (value semantics: copied on load/store)
		r := c.fresh(name+"_sref", SInt)
		c.emit(fmt.Sprintf("(assert (and (> %s 0) (< %s %s)))", r.S, r.S, st.alloc.S))
		return StructPtr{r, typeKey(t), u, t}
	}
	return OpaqueV{t.String()}
}

func zeroVal(t types.Type) Val {
	switch u := t.Underlying().(type) {
	case *types.Basic:
		k, ok := sortOfBasic(t)
		if ok {
			return zeroOf(k)
		}
	case *types.Slice:
		es, _ := sortOfBasic(u.Elem())
		return SliceV{intLit(0), intLit(0), intLit(0), es, u.Elem()}
	case *types.Pointer:
		if s, ok := u.Elem().Underlying().(*types.Struct); ok {
			return StructPtr{intLit(0), typeKey(u.Elem()), s, u.Elem()}
		}
		if at, ok := u.Elem().Underlying().(*types.Array); ok {
			if es, ok := sortOfBasic(at.Elem()); ok {
				return ArrPtr{intLit(0), es, at.Len()}
			}
		}
	case *types.Interface:
		if isErrorType(t) {
			return ErrV{tTrue}
		}
		return IfaceV{Ref: intLit(0), Typ: t}
	case *types.Signature:
		return FuncV{Nil: true, Sig: u}
	}
	return OpaqueV{"zero " + t.String()}
}

// ------------------------------------------------------------------
// loop structure

func (fr *Frame) analyseLoops() {
	fn := fr.fn
	fr.loops = map[*ssa.BasicBlock]*loopInfo{}
	fr.inLoop = map[*ssa.BasicBlock]*loopInfo{}
	if len(fn.Blocks) == 0 {
		return
	}
	for _, b := range fn.Blocks {
		for _, s := range b.Succs {
			if s.Dominates(b) { // back edge b -> s
				li := fr.loops[s]
				if li == nil {
					li = &loopInfo{header: s, blocks: map[*ssa.BasicBlock]bool{s: true}, ordinal: -1}
					fr.loops[s] = li
				}
				// natural loop: all blocks that reach b without passing s
				stack := []*ssa.BasicBlock{b}
				for len(stack) > 0 {
					x := stack[len(stack)-1]
					stack = stack[:len(stack)-1]
					if li.blocks[x] {
						continue
					}
					li.blocks[x] = true
					stack = append(stack, x.Preds...)
				}
			}
		}
	}
	// innermost loop per block, parents
	var all []*loopInfo
	for _, li := range fr.loops {
		all = append(all, li)
	}
	sort.Slice(all, func(i, j int) bool { return len(all[i].blocks) < len(all[j].blocks) })
	for _, li := range all {
		for b := range li.blocks {
			if fr.inLoop[b] == nil {
				fr.inLoop[b] = li
			}
		}
	}
	for i, li := range all {
		for _, lj := range all[i+1:] {
			if lj.blocks[li.header] && lj != li {
				li.parent = lj
				break
			}
		}
	}
	// ordinals: by source loop statements
	var stmts []ast.Node
	if syn := fn.Syntax(); syn != nil {
		var body ast.Node
		switch s := syn.(type) {
		case *ast.FuncDecl:
			body = s.Body
		case *ast.FuncLit:
			body = s.Body
		}
		if body != nil {
			ast.Inspect(body, func(n ast.Node) bool {
				switch n.(type) {
				case *ast.FuncLit:
					return false
				case *ast.ForStmt, *ast.RangeStmt:
					stmts = append(stmts, n)
				}
				return true
			})
		}
	}
	for _, li := range all {
		// smallest statement containing all positions of the loop's blocks
		best := -1
		for k, s := range stmts {
			ok := true
			any := false
			for b := range li.blocks {
				for _, in := range b.Instrs {
					if _, isDbg := in.(*ssa.DebugRef); isDbg {
						continue
					}
					if _, isPhi := in.(*ssa.Phi); isPhi {
						continue
					}
					p := in.Pos()
					if !p.IsValid() {
						continue
					}
					any = true
					if p < s.Pos() || p > s.End() {
						ok = false
					}
				}
			}
			if ok && any {
				if best < 0 || (s.End()-s.Pos()) < (stmts[best].End()-stmts[best].Pos()) {
					best = k
				}
			}
		}
		li.ordinal = best
	}
	// a loop whose own blocks carry no source positions (a range loop whose body is just a
	// nested loop) lands on the statement of its child: move it to the enclosing loop statement
	for changed := true; changed; {
		changed = false
		for _, li := range all {
			p := li.parent
			if p == nil || li.ordinal < 0 || p.ordinal != li.ordinal {
				continue
			}
			child := stmts[li.ordinal]
			best := -1
			for k, st := range stmts {
				if k != li.ordinal && st.Pos() <= child.Pos() && st.End() >= child.End() {
					if best < 0 || (st.End()-st.Pos()) < (stmts[best].End()-stmts[best].Pos()) {
						best = k
					}
				}
			}
			if best >= 0 {
				p.ordinal = best
				changed = true
			}
		}
	}
	// reordered loops: the contract records a hash of every loop statement in
	// source order ("loopsigs ..."); when the same loops now appear in another
	// order, each loop keeps the number it had when the contract was written
	if fr.fc != nil && len(fr.fc.LoopSigs) > 0 && len(fr.fc.LoopSigs) == len(stmts) {
		cur := loopSigs(fn.Prog.Fset, stmts)
		same := true
		for k := range cur {
			if cur[k] != fr.fc.LoopSigs[k] {
				same = false
			}
		}
		if !same {
			// k-th occurrence of a hash now -> k-th occurrence of it then
			pos := map[string][]int{}
			for k, h := range fr.fc.LoopSigs {
				pos[h] = append(pos[h], k)
			}
			remap := make([]int, len(cur))
			seen := map[string]int{}
			ok := true
			for k, h := range cur {
				if seen[h] >= len(pos[h]) {
					ok = false
					break
				}
				remap[k] = pos[h][seen[h]]
				seen[h]++
			}
			if ok {
				for _, li := range all {
					if li.ordinal >= 0 {
						li.ordinal = remap[li.ordinal]
					}
				}
			}
		}
	}
}

// loopSigs: a short hash of the printed text of each loop statement
// (comments and layout do not count).
func loopSigs(fset *token.FileSet, stmts []ast.Node) []string {
	var out []string
	for _, s := range stmts {
		var buf bytes.Buffer
		printer.Fprint(&buf, fset, s)
		h := fnv.New32a()
		h.Write(buf.Bytes())
		out = append(out, fmt.Sprintf("%08x", h.Sum32()))
	}
	return out
}

// loopStmts lists the loop statements of a function in source order (function literals excluded).
func loopStmts(fn *ssa.Function) []ast.Node {
	var stmts []ast.Node
	var body ast.Node
	switch s := fn.Syntax().(type) {
	case *ast.FuncDecl:
		body = s.Body
	case *ast.FuncLit:
		body = s.Body
	}
	if body != nil && body.(*ast.BlockStmt) != nil {
		ast.Inspect(body, func(n ast.Node) bool {
			switch n.(type) {
			case *ast.FuncLit:
				return false
			case *ast.ForStmt, *ast.RangeStmt:
				stmts = append(stmts, n)
			}
			return true
		})
	}
	return stmts
}

// topological order ignoring back edges
func (fr *Frame) order() []*ssa.BasicBlock {
	fn := fr.fn
	seen := map[*ssa.BasicBlock]bool{}
	var post []*ssa.BasicBlock
	var dfs func(b *ssa.BasicBlock)
	dfs = func(b *ssa.BasicBlock) {
		seen[b] = true
		// successors that leave b's innermost loop are visited first, so that in
		// the reverse postorder a loop's body precedes what follows the loop
		succs := append([]*ssa.BasicBlock(nil), b.Succs...)
		if li := fr.inLoop[b]; li != nil {
			sort.SliceStable(succs, func(i, j int) bool { return !li.blocks[succs[i]] && li.blocks[succs[j]] })
		}
		for _, s := range succs {
			if s.Dominates(b) {
				continue
			}
			if !seen[s] {
				dfs(s)
			}
		}
		post = append(post, b)
	}
	dfs(fn.Blocks[0])
	for i, j := 0, len(post)-1; i < j; i, j = i+1, j-1 {
		post[i], post[j] = post[j], post[i]
	}
	return post
}

// nameBinding: from location (blk, idx) on, source variable `name` holds val.
type nameBinding struct {
	val   ssa.Value
	blk   *ssa.BasicBlock
	idx   int
	isPhi bool
}

// collect source-name -> bindings from DebugRefs, phi comments, parameters
func (fr *Frame) collectNames() {
	fr.names = map[string][]nameBinding{}
	add := func(n string, b nameBinding) {
		fr.names[n] = append(fr.names[n], b)
	}
	if len(fr.fn.Blocks) == 0 {
		return
	}
	entry := fr.fn.Blocks[0]
	for _, p := range fr.fn.Params {
		add(p.Name(), nameBinding{p, entry, -1, false})
	}
	for _, fv := range fr.fn.FreeVars {
		add(fv.Name(), nameBinding{fv, entry, -1, false})
	}
	for _, b := range fr.fn.Blocks {
		for i, in := range b.Instrs {
			switch x := in.(type) {
			case *ssa.Phi:
				if x.Comment != "" {
					add(x.Comment, nameBinding{x, b, i, true})
				}
			case *ssa.Alloc:
				if x.Comment != "" {
					add(x.Comment, nameBinding{x, b, i, false})
				}
			case *ssa.DebugRef:
				if id, ok := x.Expr.(*ast.Ident); ok && !x.IsAddr {
					add(id.Name, nameBinding{x.X, b, i, false})
				}
			}
		}
	}
	// renamed locals: the contract records the function's declared locals in
	// source order ("locals a, b, c"); a recorded name that no longer exists is
	// bound to the local now declared at the same position (only when the
	// number of declarations is unchanged)
	if fr.fc != nil && len(fr.fc.Locals) > 0 {
		cur := declaredLocals(fr.fn)
		for old, now := range alignRenamed(fr.fc.Locals, cur) {
			if len(fr.names[old]) == 0 && len(fr.names[now]) > 0 {
				fr.names[old] = fr.names[now]
				if fr.renamed == nil {
					fr.renamed = map[string]string{}
				}
				fr.renamed[old] = now
			}
		}
	}
}

// alignRenamed aligns the recorded list of declared locals with the current one
// (longest common subsequence of names); where the stretch between two common
// names has the same length in both lists, its entries are paired up position by
// position: those are renamed locals. Added or removed declarations elsewhere in
// the function do not disturb the pairing.
func alignRenamed(rec, cur []string) map[string]string {
	n, m := len(rec), len(cur)
	lcs := make([][]int, n+1)
	for i := range lcs {
		lcs[i] = make([]int, m+1)
	}
	for i := n - 1; i >= 0; i-- {
		for j := m - 1; j >= 0; j-- {
			if rec[i] == cur[j] {
				lcs[i][j] = lcs[i+1][j+1] + 1
			} else if lcs[i+1][j] >= lcs[i][j+1] {
				lcs[i][j] = lcs[i+1][j]
			} else {
				lcs[i][j] = lcs[i][j+1]
			}
		}
	}
	out := map[string]string{}
	i, j := 0, 0
	gi, gj := 0, 0 // start of the current gap
	bare := func(x string) string { return strings.TrimSuffix(x, "@loop") }
	pair := func(a, b []string) {
		if len(a) != len(b) {
			return
		}
		for k := range a {
			if a[k] != b[k] {
				if _, dup := out[bare(a[k])]; !dup {
					out[bare(a[k])] = bare(b[k])
				}
			}
		}
	}
	flush := func(ei, ej int) {
		if ei-gi == ej-gj {
			pair(rec[gi:ei], cur[gj:ej])
			return
		}
		// unequal stretches: pair loop variables with loop variables and plain locals with
		// plain locals when each kind has the same count on both sides
		split := func(xs []string) (loop, plain []string) {
			for _, x := range xs {
				if strings.HasSuffix(x, "@loop") {
					loop = append(loop, x)
				} else {
					plain = append(plain, x)
				}
			}
			return
		}
		rl, rp := split(rec[gi:ei])
		cl, cp := split(cur[gj:ej])
		pair(rl, cl)
		pair(rp, cp)
	}
	for i < n && j < m {
		if rec[i] == cur[j] {
			flush(i, j)
			i++
			j++
			gi, gj = i, j
		} else if lcs[i+1][j] >= lcs[i][j+1] {
			i++
		} else {
			j++
		}
	}
	flush(n, m)
	return out
}

// declaredLocals lists the local variables a function declares (:=, var, range
// and type-switch bindings; blank identifiers skipped), in source order,
// including those of nested function literals.
func declaredLocals(fn *ssa.Function) []string {
	var body *ast.BlockStmt
	switch d := fn.Syntax().(type) {
	case *ast.FuncDecl:
		body = d.Body
	case *ast.FuncLit:
		body = d.Body
	}
	if body == nil {
		return nil
	}
	var out []string
	loopVars := map[*ast.Ident]bool{} // variables declared by a for-init clause
	addIdent := func(e ast.Expr) {
		if id, ok := e.(*ast.Ident); ok && id.Name != "_" {
			if loopVars[id] {
				out = append(out, id.Name+"@loop")
			} else {
				out = append(out, id.Name)
			}
		}
	}
	addLoopVar := func(e ast.Expr) {
		if id, ok := e.(*ast.Ident); ok && id.Name != "_" {
			out = append(out, id.Name+"@loop")
		}
	}
	ast.Inspect(body, func(n ast.Node) bool {
		switch x := n.(type) {
		case *ast.AssignStmt:
			if x.Tok == token.DEFINE {
				for _, l := range x.Lhs {
					addIdent(l)
				}
			}
		case *ast.RangeStmt:
			if x.Tok == token.DEFINE {
				if x.Key != nil {
					addLoopVar(x.Key)
				}
				if x.Value != nil {
					addLoopVar(x.Value)
				}
			}
		case *ast.ForStmt:
			if as, ok := x.Init.(*ast.AssignStmt); ok && as.Tok == token.DEFINE {
				for _, l := range as.Lhs {
					if id, ok := l.(*ast.Ident); ok {
						loopVars[id] = true
					}
				}
			}
		case *ast.GenDecl:
			if x.Tok == token.VAR {
				for _, sp := range x.Specs {
					if vs, ok := sp.(*ast.ValueSpec); ok {
						for _, nm := range vs.Names {
							addIdent(nm)
						}
					}
				}
			}
		}
		return true
	})
	return out
}

// ------------------------------------------------------------------
// executing a function body

func (c *Ctx) newFrame(fn *ssa.Function, fc *FuncContract, params, free []Val, top bool) *Frame {
	fr := &Frame{c: c, fn: fn, fc: fc, vals: map[ssa.Value]Val{}, params: params, free: free, top: top, edges: map[[2]int]*State{}}
	for i, p := range fn.Params {
		fr.vals[p] = params[i]
	}
	for i, f := range fn.FreeVars {
		fr.vals[f] = free[i]
	}
	fr.analyseLoops()
	fr.collectNames()
	return fr
}

// run executes the body from the given state; returns the merged return state
// and values (nil state when no return is reachable).
func (fr *Frame) run(st0 *State) (*State, []Val) {
	c := fr.c
	fn := fr.fn
	if len(fn.Blocks) == 0 {
		panic(vcErr("function %s has no body", fn))
	}
	fr.ord = fr.order()
	fr.runBlocks(fr.ord, st0)
	if len(fr.rets) == 0 {
		return nil, nil
	}
	// merge returns
	st := fr.rets[0].st
	vals := fr.rets[0].vals
	if len(fr.rets) > 1 {
		ms := fr.rets[0].st.clone()
		mv := append([]Val(nil), fr.rets[0].vals...)
		for _, r := range fr.rets[1:] {
			ms = c.mergeStates(r.st.reach, r.st, ms)
			for i := range mv {
				mv[i] = c.defVal("ret", mergeVals(r.st.reach, r.vals[i], mv[i]))
			}
		}
		st, vals = ms, mv
	}
	return st, vals
}

// runBlocks executes the given blocks (in topological order); the first one
// starts from the given state, loop headers met later are cut.
func (fr *Frame) runBlocks(blocks []*ssa.BasicBlock, first *State) {
	for i, b := range blocks {
		var st *State
		if i == 0 {
			st = first.clone()
		} else if li := fr.loops[b]; li != nil {
			st = fr.cutLoop(li)
		} else {
			var phis map[*ssa.Phi]Val
			st, phis = fr.mergeIncoming(b, nil)
			for p, v := range phis {
				fr.vals[p] = v
			}
		}
		if st == nil {
			continue // unreachable
		}
		fr.execBlock(b, st)
	}
}

func (c *Ctx) defVal(prefix string, v Val) Val {
	switch x := v.(type) {
	case T:
		return c.def(prefix, x)
	case SliceV:
		return SliceV{c.def(prefix+"_id", x.ID), c.def(prefix+"_off", x.Off), c.def(prefix+"_len", x.Len), x.Elem, x.ElemT}
	case StructPtr:
		x.Ref = c.def(prefix+"_ref", x.Ref)
		return x
	case IfaceV:
		x.Ref = c.def(prefix+"_iref", x.Ref)
		return x
	case ErrV:
		return ErrV{c.def(prefix+"_nil", x.Nil)}
	case TupleV:
		r := make(TupleV, len(x))
		for i := range x {
			r[i] = c.defVal(prefix, x[i])
		}
		return r
	}
	return v
}

// mergeStates returns ite(cond, a, b) for every component.
func (c *Ctx) mergeStates(cond T, a, b *State) *State {
	n := &State{heaps: map[string]T{}, cells: map[string]Val{}}
	n.reach = c.def("reach", or(a.reach, b.reach))
	if a.alloc.S == b.alloc.S {
		n.alloc = a.alloc
	} else {
		// a named counter (never inlined): ids handed out after the join stay
		// recognisable as allocation-based
		n.alloc = c.fresh("alloc", SInt)
		c.emit(fmt.Sprintf("(assert (= %s %s))", n.alloc.S, ite(cond, a.alloc, b.alloc).S))
	}
	for _, k := range unionKeys(a.heaps, b.heaps) {
		ha := c.heap(a, k, c.heapSortOf(k, a, b))
		hb := c.heap(b, k, c.heapSortOf(k, a, b))
		m := ite(cond, ha, hb)
		if c.ites == nil {
			c.ites = map[string][3]T{}
		}
		if m.S != ha.S && m.S != hb.S {
			c.ites[m.S] = [3]T{cond, ha, hb}
		}
		n.heaps[k] = c.def("H_"+k, m)
	}
	for _, k := range unionKeysV(a.cells, b.cells) {
		va, oka := a.cells[k]
		vb, okb := b.cells[k]
		switch {
		case oka && okb:
			if valEq(va, vb) {
				n.cells[k] = va
			} else {
				n.cells[k] = c.defVal("cell_"+k, mergeVals(cond, va, vb))
			}
		case oka:
			n.cells[k] = va
		default:
			n.cells[k] = vb
		}
	}
	return n
}

func (c *Ctx) heapSortOf(k string, sts ...*State) Sort {
	if s, ok := c.heapSorts[k]; ok {
		return s
	}
	for _, st := range sts {
		if h, ok := st.heaps[k]; ok {
			return h.K
		}
	}
	panic(vcErr("unknown heap sort for %s", k))
}

func unionKeys(a, b map[string]T) []string {
	m := map[string]bool{}
	for k := range a {
		m[k] = true
	}
	for k := range b {
		m[k] = true
	}
	return sortedKeys(m)
}
func unionKeysV(a, b map[string]Val) []string {
	m := map[string]bool{}
	for k := range a {
		m[k] = true
	}
	for k := range b {
		m[k] = true
	}
	return sortedKeys(m)
}

// mergeIncoming merges the states on the (selected) incoming edges of b and
// computes the values of b's phis. only: if non-nil, restricts to those
// predecessor blocks; otherwise all non-back edges.
func (fr *Frame) mergeIncoming(b *ssa.BasicBlock, only func(p *ssa.BasicBlock) bool) (*State, map[*ssa.Phi]Val) {
	c := fr.c
	type inc struct {
		idx int
		st  *State
	}
	var ins []inc
	for i, p := range b.Preds {
		if only != nil && !only(p) {
			continue
		}
		if only == nil && b.Dominates(p) {
			continue // back edge
		}
		st := fr.edges[[2]int{p.Index, b.Index}]
		if st == nil {
			continue
		}
		ins = append(ins, inc{i, st})
	}
	if len(ins) == 0 {
		return nil, nil
	}
	st := ins[0].st.clone()
	for _, in := range ins[1:] {
		st = c.mergeStates(in.st.reach, in.st, st)
	}
	phis := map[*ssa.Phi]Val{}
	for _, instr := range b.Instrs {
		phi, ok := instr.(*ssa.Phi)
		if !ok {
			break
		}
		v := fr.get(phi.Edges[ins[0].idx])
		for _, in := range ins[1:] {
			v = mergeVals(in.st.reach, fr.get(phi.Edges[in.idx]), v)
		}
		phis[phi] = c.defVal(phiName(phi), v)
	}
	return st, phis
}

func phiName(p *ssa.Phi) string {
	if p.Comment != "" {
		return p.Comment
	}
	return p.Name()
}

// get returns the symbolic value of an SSA value.
func (fr *Frame) get(v ssa.Value) Val {
	if x, ok := fr.vals[v]; ok {
		return x
	}
	switch k := v.(type) {
	case *ssa.Const:
		return fr.c.constVal(k)
	case *ssa.Function:
		return FuncV{Fn: k, Sig: k.Signature}
	case *ssa.Global:
		if ca, ok := fr.c.constGlobal(k); ok {
			return ca
		}
		return OpaqueV{"global " + k.Name()}
	case *ssa.Builtin:
		return OpaqueV{"builtin " + k.Name()}
	}
	panic(vcErr("%s: value %s (%T) used before definition", fr.fn, v.Name(), v))
}

func (c *Ctx) constVal(k *ssa.Const) Val {
	if k.Value == nil {
		return zeroVal(k.Type())
	}
	t := k.Type()
	b, ok := t.Underlying().(*types.Basic)
	if !ok {
		return OpaqueV{"const " + t.String()}
	}
	switch {
	case b.Info()&types.IsBoolean != 0:
		if constant.BoolVal(k.Value) {
			return tTrue
		}
		return tFalse
	case b.Info()&types.IsInteger != 0:
		bi, ok := new(big.Int).SetString(constant.ToInt(k.Value).ExactString(), 10)
		if !ok {
			panic(vcErr("bad int constant %s", k.Value))
		}
		return bigIntLit(bi)
	case b.Info()&types.IsFloat != 0:
		return ratLit(constRat(k.Value))
	case b.Info()&types.IsString != 0:
		return intLit(internString(constant.StringVal(k.Value)))
	}
	return OpaqueV{"const " + t.String()}
}

func constRat(v constant.Value) *big.Rat {
	// Typed float constants have been rounded to float64 by go/types. Under
	// A-REAL a constant is read as the simplest rational (smallest denominator)
	// that rounds to the same float64: 0.001 is 1/1000, 4.0/9.0 is 4/9.
	f, _ := constant.Float64Val(constant.ToFloat(v))
	return simplestRat(f)
}

func simplestRat(f float64) *big.Rat {
	if f == 0 || math.IsInf(f, 0) || math.IsNaN(f) {
		return new(big.Rat)
	}
	neg := f < 0
	if neg {
		f = -f
	}
	if d, ok := new(big.Rat).SetString(strconv.FormatFloat(f, 'g', -1, 64)); ok && d.IsInt() {
		if neg {
			d.Neg(d)
		}
		return d
	}
	x := new(big.Rat).SetFloat64(f)
	up := new(big.Rat).SetFloat64(math.Nextafter(f, math.Inf(1)))
	dn := new(big.Rat).SetFloat64(math.Nextafter(f, 0))
	two := big.NewRat(2, 1)
	// open interval of reals that round to f (half-way points excluded)
	lo := new(big.Rat).Quo(new(big.Rat).Add(x, dn), two)
	hi := new(big.Rat).Quo(new(big.Rat).Add(x, up), two)
	r := simplestBetween(lo, hi, 0)
	if r == nil {
		r = x
	}
	// keep the literal reading when it is already simple enough (same float)
	if g, _ := r.Float64(); g != f {
		r = x
	}
	if neg {
		r.Neg(r)
	}
	return r
}

// simplestBetween returns the rational with the smallest denominator in the
// open interval (lo, hi), 0 < lo < hi (continued-fraction descent).
func simplestBetween(lo, hi *big.Rat, depth int) *big.Rat {
	if depth > 200 {
		return nil
	}
	fl := new(big.Int).Quo(lo.Num(), lo.Denom()) // floor(lo), lo > 0
	flr := new(big.Rat).SetInt(fl)
	next := new(big.Rat).Add(flr, big.NewRat(1, 1))
	if next.Cmp(hi) < 0 {
		// an integer lies strictly inside (lo, hi) unless lo is that integer
		if flr.Cmp(lo) > 0 {
			return flr
		}
		return next
	}
	if flr.Cmp(lo) == 0 {
		// lo is an integer and hi <= lo+1: take lo + 1/k for the smallest k
		d := new(big.Rat).Sub(hi, lo)
		k := new(big.Int).Quo(d.Denom(), d.Num())
		k.Add(k, big.NewInt(1))
		return new(big.Rat).Add(lo, new(big.Rat).SetFrac(big.NewInt(1), k))
	}
	// lo, hi share the integer part: recurse on the reciprocals of the fractional parts
	fl2 := new(big.Rat).Sub(lo, flr)
	fh2 := new(big.Rat).Sub(hi, flr)
	if fh2.Sign() <= 0 {
		return nil
	}
	inner := simplestBetween(new(big.Rat).Inv(fh2), new(big.Rat).Inv(fl2), depth+1)
	if inner == nil {
		return nil
	}
	return new(big.Rat).Add(flr, new(big.Rat).Inv(inner))
}

// setEdge records the state flowing along b -> succ.
func (fr *Frame) setEdge(b, succ *ssa.BasicBlock, st *State, cond T) {
	c := fr.c
	e := st.clone()
	e.reach = c.def(fmt.Sprintf("e%d_%d", b.Index, succ.Index), and(st.reach, cond))
	if succ.Dominates(b) {
		// back edge: invariant preservation and step clauses
		fr.backEdge(b, succ, e)
		return
	}
	fr.edges[[2]int{b.Index, succ.Index}] = e
}

func (fr *Frame) execBlock(b *ssa.BasicBlock, st *State) {
	c := fr.c
	fr.curBlock = b
	for _, instr := range b.Instrs {
		fr.assertAtClauses(instr, b, st)
		switch in := instr.(type) {
		case *ssa.Phi, *ssa.DebugRef:
			continue
		case *ssa.If:
			cond := fr.get(in.Cond).(T)
			cd := c.def("c", cond)
			fr.setEdge(b, b.Succs[0], st, cd)
			fr.setEdge(b, b.Succs[1], st, not(cd))
			return
		case *ssa.Jump:
			fr.setEdge(b, b.Succs[0], st, tTrue)
			return
		case *ssa.Return:
			var vals []Val
			for _, r := range in.Results {
				vals = append(vals, fr.get(r))
			}
			fr.atReturnClauses(in, b, st, vals)
			fr.rets = append(fr.rets, retInfo{st, vals, b})
			return
		case *ssa.Panic:
			if fr.fcPanicsAllowed() {
				c.note("explicit panic() paths in " + c.top.String() + " are treated as non-returning (partial correctness)")
			} else {
				c.oblige(st, "panic-unreachable", "", nil, tFalse, in.Pos(), "panic is unreachable")
			}
			return
		default:
			fr.execInstr(instr, st)
		}
	}
}

func (fr *Frame) fcPanicsAllowed() bool {
	if fr.c.fc != nil && fr.c.fc.PanicsAllowed {
		return true
	}
	return fr.fc != nil && fr.fc.PanicsAllowed
}

// ------------------------------------------------------------------
// instructions

func (fr *Frame) execInstr(instr ssa.Instruction, st *State) {
	c := fr.c
	switch in := instr.(type) {
	case *ssa.BinOp:
		fr.vals[in] = c.defVal(in.Name(), fr.binop(in, st))
	case *ssa.UnOp:
		fr.vals[in] = fr.unop(in, st)
	case *ssa.Alloc:
		fr.vals[in] = fr.alloc(in, st)
	case *ssa.Store:
		fr.store(st, fr.get(in.Addr), fr.get(in.Val), in.Pos())
	case *ssa.IndexAddr:
		fr.vals[in] = fr.indexAddr(in, st)
	case *ssa.Index:
		panic(vcErr("ssa.Index on %s unsupported", in.X.Type()))
	case *ssa.FieldAddr:
		base := fr.get(in.X)
		sp, ok := base.(StructPtr)
		if !ok {
			panic(vcErr("FieldAddr on %T", base))
		}
		c.nilCheck(st, sp.Ref, in.Pos())
		f := sp.Typ.Field(in.Field)
		if f.Embedded() {
			if es, ok := f.Type().Underlying().(*types.Struct); ok {
				fr.vals[in] = StructPtr{sp.Ref, typeKey(f.Type()), es, f.Type()}
				return
			}
		}
		if fs, ok := f.Type().Underlying().(*types.Struct); ok {
			fr.vals[in] = StructPtr{sp.Ref, sp.Key + "." + f.Name(), fs, f.Type()}
			return
		}
		fr.vals[in] = FieldPtr{sp.Ref, sp.Key, f.Name(), f.Type()}
	case *ssa.Field:
		sp, ok := fr.get(in.X).(StructPtr)
		if !ok {
			panic(vcErr("Field on %T", fr.get(in.X)))
		}
		f := sp.Typ.Field(in.Field)
		if f.Embedded() {
			if es, ok := f.Type().Underlying().(*types.Struct); ok {
				fr.vals[in] = StructPtr{sp.Ref, typeKey(f.Type()), es, f.Type()}
				return
			}
		}
		fr.vals[in] = fr.loadLoc(st, "F."+sp.Key+"."+f.Name(), sp.Ref, f.Type())
	case *ssa.Slice:
		fr.vals[in] = fr.sliceOp(in, st)
	case *ssa.MakeSlice:
		es, ok := sortOfBasic(in.Type().Underlying().(*types.Slice).Elem())
		n := fr.get(in.Len).(T)
		c.oblige(st, "bounds", "", nil, app(SBool, ">=", n, intLit(0)), in.Pos(), "make: length >= 0")
		if !ok {
			// elements that are not scalars (interface{}, slices): only the length is modelled
			fr.vals[in] = SliceV{c.newID(st), intLit(0), n, "", in.Type().Underlying().(*types.Slice).Elem()}
			return
		}
		id := c.newID(st)
		h := c.heap(st, "H."+string(es), heapSort(es))
		c.setHeap(st, "H."+string(es), c.def("H", c.sto(h, id, zeroOf(arrSort(es)))), &id)
		fr.vals[in] = SliceV{id, intLit(0), n, es, in.Type().Underlying().(*types.Slice).Elem()}
	case *ssa.Convert:
		fr.vals[in] = fr.convert(in, st)
	case *ssa.ChangeType:
		fr.vals[in] = fr.get(in.X)
	case *ssa.ChangeInterface:
		fr.vals[in] = fr.get(in.X)
	case *ssa.MakeInterface:
		v := fr.get(in.X)
		if isErrorType(in.Type()) {
			fr.vals[in] = ErrV{tFalse}
			return
		}
		switch x := v.(type) {
		case StructPtr:
			fr.vals[in] = IfaceV{Ref: x.Ref, Conc: x, Typ: in.X.Type()}
		default:
			fr.vals[in] = IfaceV{Ref: c.newID(st), Conc: v, Typ: in.X.Type()}
		}
	case *ssa.MakeClosure:
		var free []Val
		for _, b := range in.Bindings {
			free = append(free, fr.get(b))
		}
		f := in.Fn.(*ssa.Function)
		fr.vals[in] = FuncV{Fn: f, Free: free, Sig: f.Signature}
	case *ssa.Extract:
		tv, ok := fr.get(in.Tuple).(TupleV)
		if !ok {
			panic(vcErr("extract from %T", fr.get(in.Tuple)))
		}
		fr.vals[in] = tv[in.Index]
	case *ssa.Call:
		fr.vals[in] = fr.call(in, &in.Call, st)
	case *ssa.TypeAssert:
		fr.vals[in] = fr.typeAssert(in, st)
	case *ssa.Go:
		// goroutine bodies are verified sequentially (A-SEQ); race freedom
		// follows from the disjoint write footprints proved for them
		c.note("A-SEQ: `go f(x)` is treated as the call f(x); channel operations are no-ops")
		saved := c.goAlloc
		c.goAlloc = st.alloc
		c.inGo++
		fr.call(goValue{in}, &in.Call, st)
		c.inGo--
		c.goAlloc = saved
	case *ssa.MakeChan:
		fr.vals[in] = OpaqueV{"chan"}
	case *ssa.Send:
		if c.fc != nil && c.specMode == 0 {
			for _, cl := range c.fc.Clauses {
				if cl.Kind == "atsend" {
					env := fr.envAt(fr.curBlock, st, nil)
					env.atLatch = true
					c.oblige(st, "post", cl.Label, cl.Props, c.evalBool(env, cl.Expr), in.Pos(), "when the cell's run completes: "+cl.Src)
				}
			}
		}
	case *ssa.Defer:
		// only unconditional defers of the entry block: they run, last first, at
		// every return (panics are excluded separately by the safety obligations)
		if in.Block() != fr.fn.Blocks[0] {
			// a conditional defer: only calls of external functions (no modelled
			// effect) are accepted; their call obligations are generated at the
			// return, guarded by the condition under which the defer was executed
			callee := in.Call.StaticCallee()
			if callee == nil || callee.Package() == nil || strings.HasPrefix(callee.Package().Pkg.Path(), modulePrefix) {
				panic(vcErr("defer of a module function outside the entry block of %s is not modelled", fr.fn))
			}
			fr.defers = append(fr.defers, deferRec{in, st.reach, false})
			return
		}
		fr.defers = append(fr.defers, deferRec{in, tTrue, true})
	case *ssa.RunDefers:
		for i := len(fr.defers) - 1; i >= 0; i-- {
			dr := fr.defers[i]
			if dr.entry {
				fr.call(deferValue{dr.d}, &dr.d.Call, st)
				continue
			}
			saved := st.reach
			st.reach = c.def("reach", and(saved, dr.reach))
			fr.call(deferValue{dr.d}, &dr.d.Call, st)
			st.reach = saved
		}
	case *ssa.MakeMap:
		fr.vals[in] = MapV{map[string]Val{}}
	case *ssa.MapUpdate:
		m, ok := fr.get(in.Map).(MapV)
		if !ok {
			panic(vcErr("MapUpdate on %T", fr.get(in.Map)))
		}
		k, ok := in.Key.(*ssa.Const)
		if !ok {
			// symbolic key: the map's contents are no longer tracked
			m.Entries["\x00untracked"] = OpaqueV{"map with symbolic keys"}
			return
		}
		m.Entries[k.Value.ExactString()] = fr.get(in.Value)
	case *ssa.Lookup:
		if ov, isOpaque := fr.get(in.X).(OpaqueV); isOpaque && !in.CommaOk {
			// a map that is not modelled (global registry): the entry is an
			// unknown value of its type; for a function type it may be nil
			c.note("lookup in " + ov.Desc + " modelled as an unconstrained entry (A-EXTERNAL)")
			fr.vals[in] = c.freshVal(st, "entry", in.Type())
			return
		}
		m, ok := fr.get(in.X).(MapV)
		if !ok {
			panic(vcErr("Lookup on %T", fr.get(in.X)))
		}
		if _, untracked := m.Entries["\x00untracked"]; untracked {
			panic(vcErr("lookup in a map with symbolic keys is not modelled"))
		}
		k, ok := in.Index.(*ssa.Const)
		if !ok {
			panic(vcErr("map lookup with non-constant key"))
		}
		v, found := m.Entries[k.Value.ExactString()]
		if !found {
			v = zeroVal(in.Type())
		}
		if in.CommaOk {
			fr.vals[in] = TupleV{v, boolT(found)}
		} else {
			fr.vals[in] = v
		}
	default:
		panic(vcErr("%s: unsupported instruction %T: %s", fr.fn, instr, instr))
	}
}

// addInt builds a + b with zero folding (keeps index terms syntactically comparable).
func addInt(a, b T) T {
	if a.S == "0" {
		return b
	}
	if b.S == "0" {
		return a
	}
	if isIntNumeral(a.S) && isIntNumeral(b.S) {
		return intLit(numeralVal(a.S) + numeralVal(b.S))
	}
	return app(SInt, "+", a, b)
}

func subInt(a, b T) T {
	if b.S == "0" {
		return a
	}
	if isIntNumeral(a.S) && isIntNumeral(b.S) {
		return intLit(numeralVal(a.S) - numeralVal(b.S))
	}
	return app(SInt, "-", a, b)
}

func numeralVal(s string) int64 {
	neg := false
	if strings.HasPrefix(s, "(- ") {
		neg = true
		s = s[3 : len(s)-1]
	}
	n, _ := strconv.ParseInt(s, 10, 64)
	if neg {
		return -n
	}
	return n
}

func boolT(b bool) T {
	if b {
		return tTrue
	}
	return tFalse
}

func (c *Ctx) newID(st *State) T {
	id := st.alloc
	st.alloc = incTerm(st.alloc)
	if c.declared["fun:selem"] {
		c.emit(fmt.Sprintf("(assert (not (is_elem %s)))", id.S))
	}
	return id
}

var incRe = regexp.MustCompile(`^\(\+ (\S+) (\d+)\)$`)

// incTerm returns t+1, keeping the shape (+ base n) so that ids allocated
// from the same base are visibly distinct.
func incTerm(t T) T {
	if m := incRe.FindStringSubmatch(t.S); m != nil {
		n, _ := strconv.Atoi(m[2])
		return T{fmt.Sprintf("(+ %s %d)", m[1], n+1), SInt}
	}
	return T{fmt.Sprintf("(+ %s 1)", t.S), SInt}
}

func (c *Ctx) nilCheck(st *State, ref T, pos token.Pos) {
	if strings.HasPrefix(ref.S, "new!") || strings.HasPrefix(ref.S, "alloc") {
		return
	}
	c.oblige(st, "nil", "", nil, not(eq(ref, intLit(0))), pos, "pointer is not nil")
}

func (fr *Frame) alloc(in *ssa.Alloc, st *State) Val {
	c := fr.c
	et := in.Type().(*types.Pointer).Elem()
	switch u := et.Underlying().(type) {
	case *types.Struct:
		ref := c.newID(st)
		ref = T{ref.S, SInt}
		// zero-initialise fields lazily: record zero for each field heap
		fr.zeroStruct(st, ref, typeKey(et), u)
		return StructPtr{ref, typeKey(et), u, et}
	case *types.Array:
		es, ok := sortOfBasic(u.Elem())
		if !ok {
			// array of non-scalars (e.g. the []interface{} of a fmt call): opaque
			return ArrPtr{c.newID(st), "", u.Len()}
		}
		id := c.newID(st)
		h := c.heap(st, "H."+string(es), heapSort(es))
		c.setHeap(st, "H."+string(es), c.def("H", c.sto(h, id, zeroOf(arrSort(es)))), &id)
		return ArrPtr{id, es, u.Len()}
	default:
		c.nsym++
		key := fmt.Sprintf("%s!%d", in.Comment, c.nsym)
		c.cellTypes[key] = et
		c.setCell(st, key, zeroVal(et))
		return CellPtr{key, et}
	}
}

func (fr *Frame) zeroStruct(st *State, ref T, key string, s *types.Struct) {
	for i := 0; i < s.NumFields(); i++ {
		f := s.Field(i)
		if f.Embedded() {
			if es, ok := f.Type().Underlying().(*types.Struct); ok {
				fr.zeroStruct(st, ref, typeKey(f.Type()), es)
				continue
			}
		}
		if es, ok := f.Type().Underlying().(*types.Struct); ok {
			fr.zeroStruct(st, ref, key+"."+f.Name(), es)
			continue
		}
		fr.storeLoc(st, "F."+key+"."+f.Name(), ref, f.Type(), zeroVal(f.Type()))
	}
}

// storeLoc / loadLoc: typed access to a (heap base name, key) location.
func (fr *Frame) storeLoc(st *State, base string, key T, t types.Type, v Val) {
	c := fr.c
	put := func(suffix string, k Sort, x T) {
		name := base + suffix
		h := c.heap(st, name, arrSort(k))
		c.setHeap(st, name, c.def("F", c.sto(h, key, x)), &key)
	}
	if su, ok := t.Underlying().(*types.Struct); ok {
		if x, ok := v.(StructPtr); ok {
			fr.copyStructK(st, x.Ref, x.Key, key, strings.TrimPrefix(base, "F."), su)
			return
		}
	}
	switch x := v.(type) {
	case T:
		put("", x.K, x)
	case SliceV:
		if x.Off.S != "0" {
			panic(vcErr("a sub-slice with a non-zero offset is stored in %s: not modelled (A-SLICE0)", base))
		}
		put("#id", SInt, x.ID)
		put("#len", SInt, x.Len)
	case StructPtr:
		put("#ref", SInt, x.Ref)
	case ArrPtr:
		put("#id", SInt, x.ID)
	case IfaceV:
		put("#iref", SInt, x.Ref)
	case ErrV:
		put("#nil", SBool, x.Nil)
	case OpaqueV:
		// values that are not modelled (array-valued fields) are not tracked
	default:
		panic(vcErr("store of %T into %s unsupported", v, base))
	}
}

func (fr *Frame) loadLoc(st *State, base string, key T, t types.Type) Val {
	c := fr.c
	get := func(suffix string, k Sort) T {
		v := c.sel(c.heap(st, base+suffix, arrSort(k)), key)
		if (suffix == "#id" || suffix == "#ref" || suffix == "#iref") && c.inQuant == 0 && st.alloc.S != "" && !isIntNumeral(v.S) {
			// every object reachable from the heap has been allocated
			fact := "alloc-bound:" + v.S + "<" + st.alloc.S
			if !c.declared[fact] {
				c.declared[fact] = true
				c.emit(fmt.Sprintf("(assert (and (>= %s 0) (< %s %s)))", v.S, v.S, st.alloc.S))
			}
		}
		if suffix == "#len" && c.inQuant == 0 && !isIntNumeral(v.S) {
			fact := "len>=0:" + v.S
			if !c.declared[fact] {
				c.declared[fact] = true
				c.emit(fmt.Sprintf("(assert (>= %s 0))", v.S))
			}
		}
		return v
	}
	switch u := t.Underlying().(type) {
	case *types.Basic:
		k, ok := sortOfBasic(t)
		if !ok {
			return OpaqueV{t.String()}
		}
		return get("", k)
	case *types.Slice:
		es, _ := sortOfBasic(u.Elem())
		return SliceV{get("#id", SInt), intLit(0), get("#len", SInt), es, u.Elem()}
	case *types.Pointer:
		if s, ok := u.Elem().Underlying().(*types.Struct); ok {
			return StructPtr{get("#ref", SInt), typeKey(u.Elem()), s, u.Elem()}
		}
		if at, ok := u.Elem().Underlying().(*types.Array); ok {
			es, ok := sortOfBasic(at.Elem())
			if ok {
				return ArrPtr{get("#id", SInt), es, at.Len()}
			}
		}
	case *types.Interface:
		if isErrorType(t) {
			return ErrV{get("#nil", SBool)}
		}
		return IfaceV{Ref: get("#iref", SInt), Typ: t}
	case *types.Struct:
		// a struct-valued field lives inside its parent object: same identity,
		// field heaps named by the path
		return StructPtr{key, strings.TrimPrefix(base, "F."), u, t}
	case *types.Array:
		return OpaqueV{"array-valued field " + base}
	}
	panic(vcErr("load of %s from %s unsupported", t, base))
}

func (fr *Frame) load(st *State, addr Val, t types.Type, pos token.Pos) Val {
	c := fr.c
	switch a := addr.(type) {
	case ElemPtr:
		return c.sel(c.sel(c.heap(st, "H."+string(a.Elem), heapSort(a.Elem)), a.ID), a.Idx)
	case FieldPtr:
		return fr.loadLoc(st, "F."+a.Key+"."+a.Field, a.Ref, a.Typ)
	case CellPtr:
		v, ok := st.cells[a.Key]
		if !ok {
			panic(vcErr("load of unknown cell %s", a.Key))
		}
		return v
	case ConstElemPtr:
		return c.sel(a.Arr.Term, a.Idx)
	case StructPtr:
		// load of a whole struct value: a copy with its own identity
		ref := c.newID(st)
		fr.copyStruct(st, a.Ref, ref, a.Key, a.Typ)
		return StructPtr{ref, a.Key, a.Typ, a.Nm}
	case OpaqueV:
		// global variable: treated as an unknown of its type
		c.note("read of " + a.Desc + " modelled as an unconstrained value")
		return c.freshVal(st, "glob", t)
	}
	panic(vcErr("load through %T unsupported", addr))
}

func (fr *Frame) store(st *State, addr Val, v Val, pos token.Pos) {
	c := fr.c
	switch a := addr.(type) {
	case ElemPtr:
		name := "H." + string(a.Elem)
		h := c.heap(st, name, heapSort(a.Elem))
		x, ok := v.(T)
		if !ok {
			panic(vcErr("store of %T into slice element", v))
		}
		c.setHeap(st, name, c.def("H", c.sto(h, a.ID, c.sto(c.sel(h, a.ID), a.Idx, x))), &a.ID)
	case FieldPtr:
		fr.storeLoc(st, "F."+a.Key+"."+a.Field, a.Ref, a.Typ, v)
	case CellPtr:
		c.setCell(st, a.Key, v)
	case StructPtr:
		x, ok := v.(StructPtr)
		if !ok {
			panic(vcErr("store of %T into a struct", v))
		}
		fr.copyStruct(st, x.Ref, a.Ref, a.Key, a.Typ)
	case OpaqueV:
		// store into an opaque location (array of non-scalars): not modelled
	default:
		panic(vcErr("store through %T unsupported", addr))
	}
}

func (fr *Frame) indexAddr(in *ssa.IndexAddr, st *State) Val {
	c := fr.c
	idx := fr.get(in.Index).(T)
	switch b := fr.get(in.X).(type) {
	case SliceV:
		if b.Elem == "" {
			if su, ok := b.ElemT.Underlying().(*types.Struct); ok && b.ElemT != nil {
				c.oblige(st, "bounds", "", nil, and(app(SBool, "<=", intLit(0), idx), app(SBool, "<", idx, b.Len)), in.Pos(),
					"index in range")
				return StructPtr{c.sliceElemObj(st, b, idx), typeKey(b.ElemT), su, b.ElemT}
			}
			c.oblige(st, "bounds", "", nil, and(app(SBool, "<=", intLit(0), idx), app(SBool, "<", idx, b.Len)), in.Pos(),
				"index in range")
			if _, isSl := b.ElemT.Underlying().(*types.Slice); isSl && b.ElemT != nil {
				// a slice of slices: element k is a slice-valued cell of the object selem(id, k)
				return FieldPtr{c.sliceElemObj(st, b, idx), "sliceof", sanitize(b.ElemT.String()), b.ElemT}
			}
			return OpaqueV{"element of a slice of non-scalars"}
		}
		c.oblige(st, "bounds", "", nil, and(app(SBool, "<=", intLit(0), idx), app(SBool, "<", idx, b.Len)), in.Pos(),
			"index in range")
		return ElemPtr{b.ID, c.def("ix", addInt(b.Off, idx)), b.Elem}
	case ArrPtr:
		if b.N >= 1<<30 {
			// the *[1<<30]T idiom over caller-owned memory: Go checks nothing useful;
			// the access must stay inside the caller's buffer (ghost length)
			c.declareFun("cbuf_len", []Sort{SInt}, SInt)
			c.oblige(st, "inbuf", "C03.inbuf", []string{"C03"}, and(app(SBool, "<=", intLit(0), idx), app(SBool, "<", idx, app(SInt, "cbuf_len", b.ID))), in.Pos(),
				"access stays inside the caller's buffer")
			return ElemPtr{b.ID, idx, b.Elem}
		}
		c.oblige(st, "bounds", "", nil, and(app(SBool, "<=", intLit(0), idx), app(SBool, "<", idx, intLit(b.N))), in.Pos(),
			"index in range")
		if b.Elem == "" {
			return OpaqueV{"element of an array of non-scalars"}
		}
		return ElemPtr{b.ID, idx, b.Elem}
	case ConstArr:
		c.oblige(st, "bounds", "", nil, and(app(SBool, "<=", intLit(0), idx), app(SBool, "<", idx, intLit(int64(len(b.Elems))))), in.Pos(),
			"index in range")
		return ConstElemPtr{b, idx}
	}
	panic(vcErr("IndexAddr on %T", fr.get(in.X)))
}

func (fr *Frame) sliceOp(in *ssa.Slice, st *State) Val {
	c := fr.c
	var lo, hi T
	lo = intLit(0)
	if in.Low != nil {
		lo = fr.get(in.Low).(T)
	}
	switch b := fr.get(in.X).(type) {
	case ArrPtr:
		hi = intLit(b.N)
		if in.High != nil {
			hi = fr.get(in.High).(T)
		}
		c.oblige(st, "bounds", "", nil, and(app(SBool, "<=", intLit(0), lo), app(SBool, "<=", lo, hi), app(SBool, "<=", hi, intLit(b.N))),
			in.Pos(), "slice bounds in range")
		var et types.Type
		if p, ok := in.X.Type().Underlying().(*types.Pointer); ok {
			et = p.Elem().Underlying().(*types.Array).Elem()
		}
		return SliceV{b.ID, lo, c.def("len", subInt(hi, lo)), b.Elem, et}
	case SliceV:
		hi = b.Len
		if in.High != nil {
			hi = fr.get(in.High).(T)
		}
		// Go allows hi up to cap; capacity is not modelled, so len is required
		c.oblige(st, "bounds", "", nil, and(app(SBool, "<=", intLit(0), lo), app(SBool, "<=", lo, hi), app(SBool, "<=", hi, b.Len)),
			in.Pos(), "slice bounds in range (within len; capacity is not modelled)")
		return SliceV{b.ID, c.def("off", addInt(b.Off, lo)), c.def("len", subInt(hi, lo)), b.Elem, b.ElemT}
	}
	panic(vcErr("Slice on %T", fr.get(in.X)))
}

func (fr *Frame) convert(in *ssa.Convert, st *State) Val {
	c := fr.c
	v := fr.get(in.X)
	x, ok := v.(T)
	if !ok {
		if b, isBasic := in.Type().Underlying().(*types.Basic); isBasic && b.Info()&types.IsString != 0 {
			// []byte / []rune -> string: a string of unknown content
			return c.fresh("str", SInt)
		}
		return v
	}
	from, _ := sortOfBasic(in.X.Type())
	to, ok2 := sortOfBasic(in.Type())
	if !ok2 {
		return OpaqueV{"convert to " + in.Type().String()}
	}
	_ = from
	switch {
	case x.K == SInt && to == SReal:
		return c.def("cv", toReal(x))
	case x.K == SReal && to == SInt:
		// truncation toward zero
		fl := app(SInt, "to_int", x)
		neg := app(SInt, "-", app(SInt, "to_int", app(SReal, "-", x)))
		return c.def("cv", ite(app(SBool, ">=", x, T{"0.0", SReal}), fl, neg))
	case x.K == SInt && to == SInt:
		if isUnsigned(in.Type()) && !isUnsigned(in.X.Type()) {
			c.oblige(st, "conv", "", nil, app(SBool, ">=", x, intLit(0)), in.Pos(), "conversion to unsigned of a non-negative value")
		}
		return x
	}
	return x
}

func (fr *Frame) typeAssert(in *ssa.TypeAssert, st *State) Val {
	v := fr.get(in.X)
	iv, ok := v.(IfaceV)
	if !ok {
		panic(vcErr("TypeAssert on %T", v))
	}
	if _, isIface := in.AssertedType.Underlying().(*types.Interface); isIface {
		if in.CommaOk {
			return TupleV{iv, tTrue}
		}
		return iv
	}
	if iv.Conc != nil && iv.Typ != nil && types.Identical(iv.Typ, in.AssertedType) {
		if in.CommaOk {
			return TupleV{iv.Conc, tTrue}
		}
		return iv.Conc
	}
	// concrete assertion on an unknown dynamic type
	if p, ok := in.AssertedType.Underlying().(*types.Pointer); ok {
		if s, ok := p.Elem().Underlying().(*types.Struct); ok {
			fr.c.note("type assertion to " + in.AssertedType.String() + " assumed to succeed (dynamic types of the ND family are not tracked)")
			r := StructPtr{iv.Ref, typeKey(p.Elem()), s, p.Elem()}
			if in.CommaOk {
				return TupleV{r, tTrue}
			}
			return r
		}
	}
	panic(vcErr("TypeAssert to %s unsupported", in.AssertedType))
}

func (fr *Frame) unop(in *ssa.UnOp, st *State) Val {
	c := fr.c
	switch in.Op {
	case token.MUL:
		v := fr.load(st, fr.get(in.X), in.Type(), in.Pos())
		if t, ok := v.(T); ok && t.K == SInt && isUnsigned(in.Type()) && c.inQuant == 0 {
			// a value of an unsigned type is non-negative
			c.assume(st.reach, app(SBool, ">=", t, intLit(0)))
		}
		return v
	case token.SUB:
		x := fr.get(in.X).(T)
		return c.def(in.Name(), app(x.K, "-", x))
	case token.NOT:
		return not(fr.get(in.X).(T))
	case token.ARROW:
		if fr.c.fc != nil {
			c.note("channel receive treated as a no-op (A-SEQ)")
		}
		return c.freshVal(st, "recv", in.Type())
	}
	panic(vcErr("unop %s unsupported", in.Op))
}

func (fr *Frame) binop(in *ssa.BinOp, st *State) Val {
	c := fr.c
	xv, yv := fr.get(in.X), fr.get(in.Y)
	// comparisons with nil
	switch a := xv.(type) {
	case ErrV:
		b := yv.(ErrV)
		switch in.Op {
		case token.EQL:
			return eq(a.Nil, b.Nil) // err == nil
		case token.NEQ:
			return not(eq(a.Nil, b.Nil))
		}
	case SliceV:
		b, ok := yv.(SliceV)
		if ok {
			switch in.Op {
			case token.EQL:
				return and(eq(a.ID, b.ID)) // comparison with nil only
			case token.NEQ:
				return not(eq(a.ID, b.ID))
			}
		}
	case IfaceV:
		if b, ok := yv.(IfaceV); ok {
			switch in.Op {
			case token.EQL:
				return eq(a.Ref, b.Ref)
			case token.NEQ:
				return not(eq(a.Ref, b.Ref))
			}
		}
	case FuncV:
		if b, ok := yv.(FuncV); ok {
			isNil := func(f FuncV) T {
				if f.Nil {
					return tTrue
				}
				if f.Fn != nil {
					return tFalse
				}
				// function-typed parameter: nil-ness is a symbolic Boolean
				c.declareFun(f.Sym+"_isnil", nil, SBool)
				return T{f.Sym + "_isnil", SBool}
			}
			var r T
			if b.Nil {
				r = isNil(a)
			} else if a.Nil {
				r = isNil(b)
			} else {
				panic(vcErr("comparison of two function values"))
			}
			if in.Op == token.NEQ {
				return not(r)
			}
			return r
		}
	case StructPtr:
		if b, ok := yv.(StructPtr); ok {
			switch in.Op {
			case token.EQL:
				return eq(a.Ref, b.Ref)
			case token.NEQ:
				return not(eq(a.Ref, b.Ref))
			}
		}
	}
	x, ok1 := xv.(T)
	y, ok2 := yv.(T)
	if !ok1 || !ok2 {
		panic(vcErr("binop %s on %T, %T", in.Op, xv, yv))
	}
	return c.arith(st, in.Op, x, y, in.Pos(), true)
}

func (c *Ctx) arith(st *State, op token.Token, x, y T, pos token.Pos, check bool) T {
	if len(c.nanSyms) > 0 && check && (c.isNaN(x) || c.isNaN(y)) {
		// IEEE: every ordered comparison with NaN is false, != is true
		switch op {
		case token.EQL, token.LSS, token.LEQ, token.GTR, token.GEQ:
			return tFalse
		case token.NEQ:
			return tTrue
		}
	}
	// constant folding on integer numerals (keeps unfolded spec functions small)
	if x.K == SInt && y.K == SInt && isIntNumeral(x.S) && isIntNumeral(y.S) {
		a, b := numeralVal(x.S), numeralVal(y.S)
		switch op {
		case token.ADD:
			return intLit(a + b)
		case token.SUB:
			return intLit(a - b)
		case token.LSS:
			return boolT(a < b)
		case token.LEQ:
			return boolT(a <= b)
		case token.GTR:
			return boolT(a > b)
		case token.GEQ:
			return boolT(a >= b)
		case token.EQL:
			return boolT(a == b)
		case token.NEQ:
			return boolT(a != b)
		}
	}
	switch op {
	case token.ADD:
		x, y = coerce2(x, y)
		if x.K == SInt {
			return addInt(x, y)
		}
		return app(x.K, "+", x, y)
	case token.SUB:
		x, y = coerce2(x, y)
		return app(x.K, "-", x, y)
	case token.MUL:
		x, y = coerce2(x, y)
		if x.K == SReal && !isNumeral(x.S) && !isNumeral(y.S) {
			// a non-linear product: through a macro so that one query variant can
			// treat it as uninterpreted (enough for data-flow obligations)
			return app(SReal, "rmulx", x, y)
		}
		return app(x.K, "*", x, y)
	case token.QUO:
		x, y = coerce2(x, y)
		if x.K == SReal {
			if check && st != nil {
				c.oblige(st, "div0", "", nil, not(eq(y, T{"0.0", SReal})), pos, "real divisor is non-zero")
			}
			return c.realDiv(x, y)
		}
		if check && st != nil {
			c.oblige(st, "div0", "", nil, not(eq(y, intLit(0))), pos, "integer divisor is non-zero")
		}
		c.needGoDiv()
		return app(SInt, "gdiv", x, y)
	case token.REM:
		if check && st != nil {
			c.oblige(st, "div0", "", nil, not(eq(y, intLit(0))), pos, "integer divisor is non-zero")
		}
		c.needGoDiv()
		return app(SInt, "gmod", x, y)
	case token.EQL:
		return eq(x, y)
	case token.NEQ:
		return not(eq(x, y))
	case token.LSS:
		x, y = coerce2(x, y)
		return app(SBool, "<", x, y)
	case token.LEQ:
		x, y = coerce2(x, y)
		return app(SBool, "<=", x, y)
	case token.GTR:
		x, y = coerce2(x, y)
		return app(SBool, ">", x, y)
	case token.GEQ:
		x, y = coerce2(x, y)
		return app(SBool, ">=", x, y)
	case token.LAND, token.AND:
		if x.K == SBool {
			return and(x, y)
		}
		// x & (2^k - 1) on integers is the non-negative remainder modulo 2^k
		// (exact for two's complement of any width above k, negative x included)
		if op == token.AND && x.K == SInt && y.K == SInt {
			if isIntNumeral(x.S) && !isIntNumeral(y.S) {
				x, y = y, x
			}
			if isIntNumeral(y.S) {
				if m := numeralVal(y.S); m > 0 && m < 1<<40 && (m+1)&m == 0 {
					return app(SInt, "mod", x, intLit(m+1))
				}
			}
		}
	case token.LOR, token.OR:
		if x.K == SBool {
			return or(x, y)
		}
	}
	panic(vcErr("arithmetic operator %s on %s unsupported", op, x.K))
}

// realDiv encodes x / y. A symbolic divisor gets a reciprocal constant r with
// y*r = 1 (for y != 0), so that quotients become products and identities such
// as (a*b)/c = (a/c)*b are polynomial identities for the solver.
func (c *Ctx) realDiv(x, y T) T {
	if c.inQuant > 0 || isNumeral(y.S) {
		return app(SReal, "/", x, y)
	}
	if c.recips == nil {
		c.recips = map[string]T{}
	}
	r, ok := c.recips[y.S]
	if !ok {
		r = app(SReal, "recip", y)
		// instance axioms, tagged so that the "interpreted division" query
		// variant can drop them
		c.emit(fmt.Sprintf("(assert (! (=> (not (= %s 0.0)) (= (* %s %s) 1.0)) :named recipax%d))", y.S, y.S, r.S, len(c.recips)*3))
		c.emit(fmt.Sprintf("(assert (! (=> (> %s 0.0) (> %s 0.0)) :named recipax%d))", y.S, r.S, len(c.recips)*3+1))
		c.emit(fmt.Sprintf("(assert (! (=> (< %s 0.0) (< %s 0.0)) :named recipax%d))", y.S, r.S, len(c.recips)*3+2))
		c.recips[y.S] = r
	}
	return app(SReal, "rdiv", x, y)
}

func isNumeral(s string) bool {
	s = strings.TrimSpace(s)
	for strings.HasPrefix(s, "(- ") && strings.HasSuffix(s, ")") {
		s = strings.TrimSpace(s[3 : len(s)-1])
	}
	if strings.HasPrefix(s, "(/ ") && strings.HasSuffix(s, ")") {
		f := strings.Fields(s[3 : len(s)-1])
		return len(f) == 2 && isNumeral(f[0]) && isNumeral(f[1])
	}
	if s == "" {
		return false
	}
	dot := false
	for _, ch := range s {
		if ch == '.' && !dot {
			dot = true
			continue
		}
		if ch < '0' || ch > '9' {
			return false
		}
	}
	return true
}

func (c *Ctx) needGoDiv() {
	if c.declared["gdiv"] {
		return
	}
	c.declared["gdiv"] = true
	// prepended by the query writer
}

const mulDef = "(define-fun rmulx ((x Real) (y Real)) Real (* x y))\n"
const mulUF = "(declare-fun rmulx (Real Real) Real)\n"
const recipUF = "(declare-fun recip (Real) Real)\n(define-fun rdiv ((x Real) (y Real)) Real (* x (recip y)))\n"
const recipDef = "(declare-fun recip (Real) Real)\n(define-fun rdiv ((x Real) (y Real)) Real (/ x y))\n"

const goDivPrelude = `(define-fun gdiv ((a Int) (b Int)) Int (ite (>= a 0) (div a b) (- (div (- a) b))))
(define-fun gmod ((a Int) (b Int)) Int (- a (* b (gdiv a b))))
`

// terms shorter than this are kept inline instead of being named by a fresh
// constant: syntactically equal code and specification terms then stay equal
// for the solver without non-linear reasoning
var atomicLimit = 120

// goValue adapts an ssa.Go instruction to the ssa.Value interface needed by call().
type goValue struct{ g *ssa.Go }

func (v goValue) Name() string                  { return "go" }
func (v goValue) String() string                { return v.g.String() }
func (v goValue) Type() types.Type              { return types.NewTuple() }
func (v goValue) Parent() *ssa.Function         { return v.g.Parent() }
func (v goValue) Referrers() *[]ssa.Instruction { return nil }
func (v goValue) Pos() token.Pos                { return v.g.Pos() }

type deferValue struct{ d *ssa.Defer }

func (v deferValue) Name() string                  { return "defer" }
func (v deferValue) String() string                { return v.d.String() }
func (v deferValue) Type() types.Type              { return types.NewTuple() }
func (v deferValue) Parent() *ssa.Function         { return v.d.Parent() }
func (v deferValue) Referrers() *[]ssa.Instruction { return nil }
func (v deferValue) Pos() token.Pos                { return v.d.Pos() }

func baseOfTerm(s string) string {
	if b, _, ok := splitBaseOff(s); ok {
		return b
	}
	return s
}

// laterOffset: both terms are base+offset over the same base and a's offset is not smaller.
func laterOffset(a, b string) bool {
	ba, na, ok1 := splitBaseOff(a)
	bb, nb, ok2 := splitBaseOff(b)
	return ok1 && ok2 && ba == bb && na >= nb
}

// subObj: identity of the struct-valued field <base> of object key.
func (c *Ctx) subObj(base string, key T) T {
	fn := "sub." + sanitize(base)
	c.declareFun(fn, []Sort{SInt}, SInt)
	return app(SInt, fn, key)
}

// sliceElemObj: identity of element idx of a slice of structs. Elements of
// slices that exist at entry are objects that exist at entry, and distinct
// elements are distinct objects.
func (c *Ctx) sliceElemObj(st *State, s SliceV, idx T) T {
	if !c.declared["fun:selem"] {
		c.declareFun("selem", []Sort{SInt, SInt}, SInt)
		c.declareFun("selem_s", []Sort{SInt}, SInt)
		c.declareFun("selem_i", []Sort{SInt}, SInt)
		c.declareFun("is_elem", []Sort{SInt}, SBool)
		c.declared["fun:selem"] = true
		c.emit("(assert (forall ((q_s_1 Int) (q_i_1 Int)) (! (is_elem (selem q_s_1 q_i_1)) :pattern ((selem q_s_1 q_i_1)))))")
		c.emit("(assert (forall ((q_s_0 Int) (q_i_0 Int)) (! (and (= (selem_s (selem q_s_0 q_i_0)) q_s_0) (= (selem_i (selem q_s_0 q_i_0)) q_i_0) (> (selem q_s_0 q_i_0) 0)) :pattern ((selem q_s_0 q_i_0)))))")
	}
	return app(SInt, "selem", s.ID, addInt(s.Off, idx))
}

// copyStruct copies every field of the struct object src into dst (same type key).
func (fr *Frame) copyStruct(st *State, src, dst T, key string, s *types.Struct) {
	fr.copyStructK(st, src, key, dst, key, s)
}

// copyStructK copies the fields of (src, skey) into (dst, dkey).
func (fr *Frame) copyStructK(st *State, src T, skey string, dst T, dkey string, s *types.Struct) {
	for i := 0; i < s.NumFields(); i++ {
		f := s.Field(i)
		if es, ok := f.Type().Underlying().(*types.Struct); ok {
			if f.Embedded() {
				fr.copyStructK(st, src, typeKey(f.Type()), dst, typeKey(f.Type()), es)
			} else {
				fr.copyStructK(st, src, skey+"."+f.Name(), dst, dkey+"."+f.Name(), es)
			}
			continue
		}
		v := fr.loadLoc(st, "F."+skey+"."+f.Name(), src, f.Type())
		if _, opaque := v.(OpaqueV); opaque {
			continue
		}
		fr.storeLoc(st, "F."+dkey+"."+f.Name(), dst, f.Type(), v)
	}
}

// String constants are interned: distinct constants are distinct integers,
// the empty string is 1000000; strings of unknown content are unconstrained
// integers (only equality is modelled).
var (
	stringTable   = map[string]int64{"": 1000000}
	stringTableMu sync.Mutex
)

func internString(v string) int64 {
	stringTableMu.Lock()
	defer stringTableMu.Unlock()
	if id, ok := stringTable[v]; ok {
		return id
	}
	id := int64(1000000 + len(stringTable))
	stringTable[v] = id
	return id
}

// atReturnClauses: "atreturn K [label] expr" - a postcondition of the K-th return
// statement only (source order, 0-based), evaluated at that statement with the
// function's locals in scope and the result names bound to the returned values.
func (fr *Frame) atReturnClauses(in *ssa.Return, b *ssa.BasicBlock, st *State, vals []Val) {
	c := fr.c
	if !fr.top || fr.fc == nil || c.specMode > 0 {
		return
	}
	has := false
	for _, cl := range fr.fc.Clauses {
		if cl.Kind == "atreturn" {
			has = true
		}
	}
	if !has {
		return
	}
	var rets []token.Pos
	for _, blk := range fr.fn.Blocks {
		for _, i2 := range blk.Instrs {
			if r, ok := i2.(*ssa.Return); ok && r.Pos().IsValid() {
				rets = append(rets, r.Pos())
			}
		}
	}
	sort.Slice(rets, func(i, j int) bool { return rets[i] < rets[j] })
	ord := -1
	for k, p := range rets {
		if p == in.Pos() {
			ord = k
		}
	}
	for _, cl := range fr.fc.Clauses {
		if cl.Kind != "atreturn" || cl.Loop != ord {
			continue
		}
		env := fr.envAt(b, st, nil)
		env.atLatch = true
		env.old = fr.old
		if env.bound == nil {
			env.bound = map[string]Val{}
		}
		for i, v := range vals {
			if i < len(fr.fc.Results) {
				env.bound[fr.fc.Results[i]] = v
			}
		}
		g := c.evalBool(env, cl.Expr)
		c.oblige(st, "post", cl.Label, cl.Props, g, in.Pos(), fmt.Sprintf("at return statement %d: %s", ord, cl.Src))
	}
}

// assertAtClauses: `assert at "text" [label] expr` - an intermediate assertion that
// must hold just before the first instruction of the source line containing the
// given text (the anchor must match exactly one line of the function). pre(x) is
// the value of x at the head of the innermost enclosing loop.
func (fr *Frame) assertAtClauses(instr ssa.Instruction, b *ssa.BasicBlock, st *State) {
	c := fr.c
	if !fr.top || fr.fc == nil || c.specMode > 0 || !fr.fc.HasAssertAt {
		return
	}
	if _, isDbg := instr.(*ssa.DebugRef); isDbg {
		return
	}
	if _, isPhi := instr.(*ssa.Phi); isPhi {
		return
	}
	pos := instr.Pos()
	if !pos.IsValid() {
		return
	}
	p := fr.fn.Prog.Fset.Position(pos)
	line := sourceLine(p.Filename, p.Line)
	if line == "" {
		return
	}
	for _, cl := range fr.fc.Clauses {
		if (cl.Kind != "assertat" && cl.Kind != "atinst") || !strings.Contains(line, cl.Anchor) {
			continue
		}
		key := fmt.Sprintf("%p|%d", cl, p.Line)
		if fr.assertFired == nil {
			fr.assertFired = map[string]bool{}
		}
		if fr.assertFired[key] {
			continue
		}
		fr.assertFired[key] = true
		env := fr.envAt(b, st, nil)
		env.atLatch = true
		for k, in2 := range b.Instrs {
			if in2 == instr {
				env.atIdx = k
			}
		}
		if env.atIdx == 0 {
			env.atIdx = -1 // first instruction: no binding of this block counts
		}
		if li := fr.inLoop[b]; li != nil && li.headState != nil {
			env.pre = li.headState
			env.preBlk = li.header
		}
		if cl.Kind == "atinst" {
			c.assume(st.reach, c.lemmaInstance(env, cl.Src, cl.File, cl.Line))
			continue
		}
		g := c.evalBool(env, cl.Expr)
		goal := g
		for _, u := range cl.Using {
			goal = implies(c.lemmaInstance(env, u, cl.File, cl.Line), goal)
		}
		c.oblige(st, "assert", cl.Label, cl.Props, goal, pos, fmt.Sprintf("before %q: %s", cl.Anchor, cl.Src))
		if len(cl.Using) == 0 {
			// an assertion proved with its own lemma instances stays local: its conclusion is not
			// handed to the rest of the function (recursive spec functions in it would be unfolded
			// by every later query)
			c.assume(st.reach, g)
		}
	}
}

var sourceLines = map[string][]string{}
var sourceLinesMu sync.Mutex

func sourceLine(file string, line int) string {
	sourceLinesMu.Lock()
	defer sourceLinesMu.Unlock()
	ls, ok := sourceLines[file]
	if !ok {
		b, err := os.ReadFile(file)
		if err == nil {
			ls = strings.Split(string(b), "\n")
		}
		sourceLines[file] = ls
	}
	if line-1 < 0 || line-1 >= len(ls) {
		return ""
	}
	return ls[line-1]
}
