package main

// Concrete evaluation of contract expressions on values observed from a run
// of the real code (replay). Floats are compared with a relative tolerance so
// that a real-arithmetic counterexample is only confirmed if it survives
// rounding.

import (
	"fmt"
	"go/ast"
	"go/token"
	"math"
	"strconv"
)

type CEnv struct {
	cs    *Contracts
	names map[string]interface{} // float64, int64, bool, []float64, []int64, *CND
	pre   map[string]interface{}
	post  map[string]interface{}
	old   map[string]interface{}
	depth int
}

// CND is a concrete rank-1 array observation.
type CND struct {
	Cells []float64
}

type cevalErr struct{ msg string }

func cfail(format string, args ...interface{}) { panic(cevalErr{fmt.Sprintf(format, args...)}) }

const relTol = 1e-9

func tol(a, b float64) float64 {
	m := math.Max(1, math.Max(math.Abs(a), math.Abs(b)))
	return relTol * m
}

func toF(v interface{}) float64 {
	switch x := v.(type) {
	case float64:
		return x
	case int64:
		return float64(x)
	}
	cfail("not a number: %T", v)
	return 0
}

func bothInt(a, b interface{}) (int64, int64, bool) {
	x, ok1 := a.(int64)
	y, ok2 := b.(int64)
	return x, y, ok1 && ok2
}

// ceval evaluates leniently: equalities and inequalities hold if they hold
// within tolerance.
func (e *CEnv) eval(x ast.Expr) interface{} {
	e.depth++
	defer func() { e.depth-- }()
	if e.depth > 2000 {
		cfail("evaluation too deep")
	}
	switch n := x.(type) {
	case *ast.ParenExpr:
		return e.eval(n.X)
	case *ast.BasicLit:
		switch n.Kind {
		case token.INT:
			v, err := strconv.ParseInt(n.Value, 0, 64)
			if err != nil {
				cfail("bad int %s", n.Value)
			}
			return v
		case token.FLOAT:
			v, _ := strconv.ParseFloat(n.Value, 64)
			return v
		}
	case *ast.Ident:
		switch n.Name {
		case "true":
			return true
		case "false":
			return false
		}
		v, ok := e.names[n.Name]
		if !ok {
			cfail("name %s has no observed value", n.Name)
		}
		return v
	case *ast.UnaryExpr:
		v := e.eval(n.X)
		switch n.Op {
		case token.NOT:
			return !v.(bool)
		case token.SUB:
			if i, ok := v.(int64); ok {
				return -i
			}
			return -toF(v)
		case token.ADD:
			return v
		}
	case *ast.BinaryExpr:
		if n.Op == token.LAND {
			return e.eval(n.X).(bool) && e.eval(n.Y).(bool)
		}
		if n.Op == token.LOR {
			return e.eval(n.X).(bool) || e.eval(n.Y).(bool)
		}
		l, r := e.eval(n.X), e.eval(n.Y)
		if lb, ok := l.(bool); ok {
			rb := r.(bool)
			switch n.Op {
			case token.EQL:
				return lb == rb
			case token.NEQ:
				return lb != rb
			}
		}
		if a, b, ok := bothInt(l, r); ok {
			switch n.Op {
			case token.ADD:
				return a + b
			case token.SUB:
				return a - b
			case token.MUL:
				return a * b
			case token.QUO:
				if b == 0 {
					cfail("integer division by zero")
				}
				return a / b
			case token.REM:
				if b == 0 {
					cfail("integer division by zero")
				}
				return a % b
			case token.EQL:
				return a == b
			case token.NEQ:
				return a != b
			case token.LSS:
				return a < b
			case token.LEQ:
				return a <= b
			case token.GTR:
				return a > b
			case token.GEQ:
				return a >= b
			}
		}
		a, b := toF(l), toF(r)
		t := tol(a, b)
		switch n.Op {
		case token.ADD:
			return a + b
		case token.SUB:
			return a - b
		case token.MUL:
			return a * b
		case token.QUO:
			return a / b
		case token.EQL:
			if math.IsNaN(a) || math.IsNaN(b) || math.IsInf(a, 0) || math.IsInf(b, 0) {
				return false
			}
			return math.Abs(a-b) <= t
		case token.NEQ:
			return math.Abs(a-b) > t || math.IsNaN(a) || math.IsNaN(b)
		case token.LSS:
			return a < b+t
		case token.LEQ:
			return a <= b+t
		case token.GTR:
			return a > b-t
		case token.GEQ:
			return a >= b-t
		}
	case *ast.IndexExpr:
		b := e.eval(n.X)
		i, ok := e.eval(n.Index).(int64)
		if !ok {
			cfail("non-integer index")
		}
		switch s := b.(type) {
		case []float64:
			if i < 0 || int(i) >= len(s) {
				cfail("index %d outside the observed slice", i)
			}
			return s[i]
		case []int64:
			if i < 0 || int(i) >= len(s) {
				cfail("index %d outside the observed slice", i)
			}
			return s[i]
		}
	case *ast.SelectorExpr:
		b := e.eval(n.X)
		switch v := b.(type) {
		case *CND:
			if n.Sel.Name == "len" {
				return int64(len(v.Cells))
			}
		case []float64:
			if n.Sel.Name == "len" {
				return int64(len(v))
			}
		case []int64:
			if n.Sel.Name == "len" {
				return int64(len(v))
			}
		}
		cfail("selector %s not observable", n.Sel.Name)
	case *ast.CallExpr:
		return e.call(n)
	}
	cfail("expression %s not evaluable", exprString(x))
	return nil
}

func (e *CEnv) call(n *ast.CallExpr) interface{} {
	if se, ok := n.Fun.(*ast.SelectorExpr); ok {
		recv := e.eval(se.X)
		if nd, ok := recv.(*CND); ok && se.Sel.Name == "at" {
			i := e.eval(n.Args[0]).(int64)
			if i < 0 || int(i) >= len(nd.Cells) {
				cfail("cell %d outside the observed array", i)
			}
			return nd.Cells[i]
		}
		cfail("method %s not observable", se.Sel.Name)
	}
	id, ok := n.Fun.(*ast.Ident)
	if !ok {
		cfail("call not evaluable")
	}
	args := n.Args
	num := func(i int) float64 { return toF(e.eval(args[i])) }
	switch id.Name {
	case "forall", "exists":
		v := args[0].(*ast.Ident).Name
		lo := e.eval(args[1]).(int64)
		hi := e.eval(args[2]).(int64)
		if hi-lo > 100000 {
			cfail("quantifier range too large")
		}
		saved, had := e.names[v]
		defer func() {
			if had {
				e.names[v] = saved
			} else {
				delete(e.names, v)
			}
		}()
		for k := lo; k < hi; k++ {
			e.names[v] = k
			b := e.eval(args[3]).(bool)
			if id.Name == "forall" && !b {
				return false
			}
			if id.Name == "exists" && b {
				return true
			}
		}
		return id.Name == "forall"
	case "ite":
		if e.eval(args[0]).(bool) {
			return e.eval(args[1])
		}
		return e.eval(args[2])
	case "implies":
		return !e.eval(args[0]).(bool) || e.eval(args[1]).(bool)
	case "iff":
		return e.eval(args[0]).(bool) == e.eval(args[1]).(bool)
	case "old", "pre", "post":
		var m map[string]interface{}
		switch id.Name {
		case "old":
			m = e.old
		case "pre":
			m = e.pre
		case "post":
			m = e.post
		}
		if m == nil {
			cfail("%s() values were not observed", id.Name)
		}
		n2 := *e
		n2.names = map[string]interface{}{}
		for k, v := range e.names {
			n2.names[k] = v
		}
		for k, v := range m {
			n2.names[k] = v
		}
		// names that are carried but unobserved in this view must not leak
		return n2.eval(args[0])
	case "len":
		switch s := e.eval(args[0]).(type) {
		case []float64:
			return int64(len(s))
		case []int64:
			return int64(len(s))
		case *CND:
			return int64(len(s.Cells))
		}
	case "real", "float64":
		return num(0)
	case "int":
		v := e.eval(args[0])
		if i, ok := v.(int64); ok {
			return i
		}
		return int64(toF(v))
	case "min":
		l, r := e.eval(args[0]), e.eval(args[1])
		if a, b, ok := bothInt(l, r); ok {
			if a < b {
				return a
			}
			return b
		}
		return math.Min(toF(l), toF(r))
	case "max":
		l, r := e.eval(args[0]), e.eval(args[1])
		if a, b, ok := bothInt(l, r); ok {
			if a > b {
				return a
			}
			return b
		}
		return math.Max(toF(l), toF(r))
	case "abs":
		v := e.eval(args[0])
		if i, ok := v.(int64); ok {
			if i < 0 {
				return -i
			}
			return i
		}
		return math.Abs(toF(v))
	case "pow":
		return math.Pow(num(0), num(1))
	case "exp":
		return math.Exp(num(0))
	case "tanh":
		return math.Tanh(num(0))
	case "log":
		return math.Log(num(0))
	case "log10":
		return math.Log10(num(0))
	case "sqrt":
		return math.Sqrt(num(0))
	case "floor":
		return math.Floor(num(0))
	case "ceil":
		return math.Ceil(num(0))
	case "cos":
		return math.Cos(num(0))
	case "tdiv":
		return e.eval(args[0]).(int64) / e.eval(args[1]).(int64)
	case "tmod":
		return e.eval(args[0]).(int64) % e.eval(args[1]).(int64)
	case "seq":
		return e.eval(args[0])
	}
	if sp, ok := e.cs.Specs[id.Name]; ok && sp.Body != nil {
		n2 := *e
		n2.names = map[string]interface{}{}
		for i, p := range sp.Params {
			v := e.eval(args[i])
			if p[1] == "real" || p[1] == "float64" {
				v = toF(v)
			}
			if nd, ok := v.(*CND); ok {
				v = nd.Cells
			}
			n2.names[p[0]] = v
		}
		r := n2.eval(sp.Body)
		if sp.Ret == "real" || sp.Ret == "float64" {
			return toF(r)
		}
		return r
	}
	cfail("function %s not evaluable", id.Name)
	return nil
}

// evalClause returns (value, "") or (false, reason) when it cannot be evaluated.
func (e *CEnv) evalClause(x ast.Expr) (res bool, why string) {
	defer func() {
		if r := recover(); r != nil {
			if ce, ok := r.(cevalErr); ok {
				res, why = false, ce.msg
				return
			}
			if _, ok := r.(error); ok {
				res, why = false, fmt.Sprint(r)
				return
			}
			panic(r)
		}
	}()
	v, ok := e.eval(x).(bool)
	if !ok {
		return false, "clause is not Boolean"
	}
	return v, ""
}
