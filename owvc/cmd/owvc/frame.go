package main

// Structural (frame / dependency) obligations of model kernels, decided by a
// syntactic analysis of the SSA form (back end "frame-checker"):
//
//   C06: the kernel is a fold over the time loop from its state parameters —
//        every loop-carried quantity is initialised from a state parameter
//        and flows to the matching result; nothing else is carried.
//   C14: no package-level state is written, nothing non-deterministic is
//        used, and input series are read only inside the time loop.

import (
	"fmt"
	"go/token"
	"go/types"
	"strings"

	"golang.org/x/tools/go/ssa"
)

func (c *Ctx) structural(kind, label string, ok bool, pos token.Pos, text string) {
	props := []string{}
	if i := strings.Index(label, "."); i > 0 {
		props = append(props, label[:i])
	}
	label = sanitizeLabel(label)
	st := &State{reach: tTrue}
	g := tTrue
	if !ok {
		g = tFalse
	}
	o := c.oblige(st, kind, label, props, g, pos, text)
	if o != nil {
		o.Replay = nil
		o.Values = nil
		o.Structural = true
	}
}

// timeLoopOf finds the kernel's time loop: the outermost loop that writes an
// output series (an ND Set/Set1 on a parameter), or the only outermost loop.
func (fr *Frame) timeLoopOf() *loopInfo {
	var outer []*loopInfo
	for _, li := range fr.loops {
		if li.parent == nil {
			outer = append(outer, li)
		}
	}
	var cands []*loopInfo
	for _, li := range outer {
		writes := false
		for b := range li.blocks {
			for _, in := range b.Instrs {
				if call, ok := in.(*ssa.Call); ok && call.Call.IsInvoke() {
					if m := call.Call.Method.Name(); m == "Set" || m == "Set1" {
						if _, isParam := call.Call.Value.(*ssa.Parameter); isParam {
							writes = true
						}
					}
				}
			}
		}
		if writes {
			cands = append(cands, li)
		}
	}
	if len(cands) == 1 {
		return cands[0]
	}
	if len(cands) == 0 && len(outer) == 1 {
		return outer[0]
	}
	return nil
}

func loopIndexPhi(li *loopInfo) *ssa.Phi {
	if ifi, ok := li.header.Instrs[len(li.header.Instrs)-1].(*ssa.If); ok {
		if bo, ok := ifi.Cond.(*ssa.BinOp); ok {
			if p, ok := bo.X.(*ssa.Phi); ok && p.Block() == li.header {
				return p
			}
		}
	}
	return nil
}

func (fr *Frame) entryOperand(li *loopInfo, phi *ssa.Phi) ssa.Value {
	var v ssa.Value
	for k, p := range li.header.Preds {
		if li.blocks[p] {
			continue
		}
		if v != nil && v != phi.Edges[k] {
			return nil
		}
		v = phi.Edges[k]
	}
	return v
}

// usedInLoop: does the value influence anything in the loop other than its
// own update chain (a counter that is only incremented is not a carry)?
func usedInLoop(li *loopInfo, phi *ssa.Phi) bool {
	seen := map[ssa.Value]bool{phi: true}
	work := []ssa.Value{phi}
	for len(work) > 0 {
		v := work[len(work)-1]
		work = work[:len(work)-1]
		for _, u := range *v.Referrers() {
			if _, isDbg := u.(*ssa.DebugRef); isDbg {
				continue
			}
			if !li.blocks[u.Block()] {
				continue
			}
			switch x := u.(type) {
			case *ssa.Phi:
				if x == phi {
					continue // flows back into itself
				}
				if !seen[x] {
					seen[x] = true
					work = append(work, x)
				}
			case *ssa.BinOp:
				if !seen[x] {
					seen[x] = true
					work = append(work, x)
				}
			default:
				return true // stored, passed to a call, compared, converted ...
			}
		}
	}
	return false
}

func (fr *Frame) structuralChecks() {
	c := fr.c
	fc := fr.fc
	if fc != nil && fc.LocModel {
		fr.checkJoin()
	}
	if fc == nil || (!fc.Kernel && !fc.HasStates) {
		return
	}
	fn := fr.fn
	li := fr.timeLoopOf()
	if fc.HasStates {
		fr.checkFold(li)
	}
	if fc.Kernel {
		fr.checkPurity(li)
	}
	_ = c
	_ = fn
}

// ---- C06 ----

func (fr *Frame) checkFold(li *loopInfo) {
	c := fr.c
	fc := fr.fc
	fn := fr.fn
	pos := fn.Pos()
	names := paramNames(fn)
	if len(fc.Params) > 0 {
		names = fc.Params
	}
	stateParam := map[*ssa.Parameter]int{}
	for si, sname := range fc.States {
		found := false
		for pi, n := range names {
			if n == sname {
				stateParam[fn.Params[pi]] = si
				found = true
			}
		}
		if !found {
			panic(vcErr("states: %s is not a parameter of %s", sname, fn))
		}
	}
	nres := fn.Signature.Results().Len()
	c.structural("frame", "C06.state-arity", nres == len(fc.States), pos,
		fmt.Sprintf("the kernel returns one final state per state parameter (%d states, %d results)", len(fc.States), nres))
	if nres != len(fc.States) {
		return
	}
	// header phis of the time loop
	phiOfState := map[int]*ssa.Phi{}
	var idxPhi *ssa.Phi
	if len(fc.States) == 0 {
		// declared stateless (e.g. a generator driven by its parameters): not a
		// subject of hot-start continuity
		return
	}
	derived := map[string]bool{}
	for _, d := range fc.Derived {
		if i := strings.Index(d, "="); i > 0 {
			derived[strings.TrimSpace(d[:i])] = true
		}
	}
	if li == nil {
		c.note("C06: " + fn.Name() + " has no time loop; its state handling is described by its postconditions")
		return
	}
	if li != nil {
		idxPhi = loopIndexPhi(li)
		for _, instr := range li.header.Instrs {
			phi, ok := instr.(*ssa.Phi)
			if !ok {
				break
			}
			if phi == idxPhi {
				continue
			}
			ev := fr.entryOperand(li, phi)
			if p, ok := ev.(*ssa.Parameter); ok {
				if si, isState := stateParam[p]; isState {
					phiOfState[si] = phi
					continue
				}
			}
			// entry value derived from a state parameter by a declared normalisation
			norm := false
			for _, nm := range fc.Normalised {
				if phiName(phi) == nm {
					for p, si := range stateParam {
						if p.Name() == nm || names[indexOfParam(fn, p)] == nm {
							phiOfState[si] = phi
							norm = true
						}
					}
				}
			}
			if norm {
				c.note("C06: " + phiName(phi) + " is normalised from its state parameter before the time loop; hot-start continuity relies on the loop invariant keeping it in normal form")
				continue
			}
			if derived[phiName(phi)] {
				continue // tied to the carried states by a proved invariant (C06.derived-carry)
			}
			if contains(fc.Approx, phiName(phi)) {
				c.note("C06: " + phiName(phi) + " is carried between timesteps only as the starting guess of the iterative solver; a restart changes results within the solver tolerance (allowed by the property)")
				continue
			}
			carried := usedInLoop(li, phi)
			c.structural("frame", "C06.no-hidden-carry:"+phiName(phi), !carried, phi.Pos(),
				fmt.Sprintf("loop-carried variable %q is initialised from a state parameter (it is initialised from %s)", phiName(phi), describeVal(ev)))
		}
		// local arrays written in the loop must be scratch (written before read in every iteration)
		fr.checkLocalArrays(li)
	}
	// results: semantic for returns that do not come out of the time loop
	// (result = incoming state, decided by SMT under the path condition),
	// structural for the others
	passThrough := map[int]bool{}
	for _, r := range fr.rets {
		if r.blk == nil {
			continue
		}
		ret := r.blk.Instrs[len(r.blk.Instrs)-1].(*ssa.Return)
		afterLoop := false
		for hb := range li.blocks {
			if hb.Dominates(r.blk) {
				afterLoop = true
			}
		}
		for ri, rv := range ret.Results {
			sname := fc.States[ri]
			var sp *ssa.Parameter
			for p, si := range stateParam {
				if si == ri {
					sp = p
				}
			}
			if p, ok := rv.(*ssa.Parameter); ok && p == sp {
				passThrough[ri] = true
				c.structural("frame", "C06.bind-out", true, ret.Pos(), fmt.Sprintf("result %d is state %q passed through", ri, sname))
				continue
			}
			if phi, ok := rv.(*ssa.Phi); ok && phiOfState[ri] == phi {
				c.structural("frame", "C06.bind-out", true, ret.Pos(), fmt.Sprintf("result %d is the carried value of state %q", ri, sname))
				continue
			}
			if delegated(c, rv, sp) {
				c.note("C06: " + fn.Name() + " returns the final state of a kernel it delegates to, with its own state passed in")
				c.structural("frame", "C06.bind-out", true, ret.Pos(), fmt.Sprintf("result %d is the final state %q of the kernel delegated to", ri, sname))
				continue
			}
			if !afterLoop {
				// early exit: the state must come back unchanged (or the exit is unreachable)
				pv, ok1 := fr.vals[sp].(T)
				rvT, ok2 := r.vals[ri].(T)
				if ok1 && ok2 {
					c.oblige(r.st, "frame", "C06.bind-out", []string{"C06"}, eq(rvT, pv), ret.Pos(),
						fmt.Sprintf("an exit that bypasses the time loop returns state %q unchanged (or is unreachable)", sname))
					continue
				}
			}
			// a value recomputed after the loop: acceptable only as a derived state,
			// i.e. when the incoming state parameter has no influence at all
			c.structural("frame", "C06.bind-out", paramUnused(sp), ret.Pos(),
				fmt.Sprintf("result %d is the carried value of state %q (it is %s; acceptable only if the incoming state is unused)", ri, sname, rv.Name()))
		}
	}
	// every scalar state parameter is either carried (has a phi) or passed through / unused
	for p, si := range stateParam {
		if _, isBasic := p.Type().Underlying().(*types.Basic); !isBasic {
			continue
		}
		_, carried := phiOfState[si]
		c.structural("frame", "C06.bind-in", carried || passThrough[si] || paramUnusedExceptReturn(p) || delegatedArg(c, p), p.Pos(),
			fmt.Sprintf("state parameter %q initialises its loop-carried variable (or is passed through untouched)", fc.States[si]))
	}
}

func indexOfParam(fn *ssa.Function, p *ssa.Parameter) int {
	for i, q := range fn.Params {
		if q == p {
			return i
		}
	}
	return -1
}

func describeVal(v ssa.Value) string {
	if v == nil {
		return "several values"
	}
	switch x := v.(type) {
	case *ssa.Const:
		return "the constant " + x.String()
	case *ssa.Parameter:
		return "the non-state parameter " + x.Name()
	}
	return v.String()
}

func paramUnused(p *ssa.Parameter) bool {
	if p == nil {
		return false
	}
	for _, u := range *p.Referrers() {
		if _, isDbg := u.(*ssa.DebugRef); !isDbg {
			return false
		}
	}
	return true
}

func paramUnusedExceptReturn(p *ssa.Parameter) bool {
	for _, u := range *p.Referrers() {
		switch u.(type) {
		case *ssa.DebugRef, *ssa.Return:
		default:
			return false
		}
	}
	return true
}

// checkLocalArrays: an array allocated by the kernel before the time loop and
// written inside it carries information between timesteps unless every read
// in an iteration is preceded by a write in the same iteration.
func (fr *Frame) checkLocalArrays(li *loopInfo) {
	c := fr.c
	type arr struct {
		base ssa.Value
		name string
	}
	var arrays []arr
	for _, b := range fr.fn.Blocks {
		if li.blocks[b] {
			continue
		}
		for _, in := range b.Instrs {
			switch x := in.(type) {
			case *ssa.MakeSlice:
				arrays = append(arrays, arr{x, x.Name()})
			case *ssa.Slice:
				if a, ok := x.X.(*ssa.Alloc); ok {
					arrays = append(arrays, arr{x, a.Comment})
				}
			}
		}
	}
	for _, a := range arrays {
		var stores, reads []ssa.Instruction
		for _, u := range *a.base.Referrers() {
			if !li.blocks[u.Block()] {
				continue
			}
			switch x := u.(type) {
			case *ssa.DebugRef:
			case *ssa.IndexAddr:
				for _, uu := range *x.Referrers() {
					switch y := uu.(type) {
					case *ssa.Store:
						if y.Addr == ssa.Value(x) {
							stores = append(stores, y)
						} else {
							reads = append(reads, y)
						}
					case *ssa.DebugRef:
					default:
						reads = append(reads, uu)
					}
				}
			default:
				reads = append(reads, u) // passed to a call, re-sliced, ...
			}
		}
		if len(stores) == 0 {
			continue
		}
		// constant store indices that dominate a given instruction
		constIdx := func(in ssa.Instruction) (int64, bool) {
			var addr ssa.Value
			switch x := in.(type) {
			case *ssa.Store:
				addr = x.Addr
			case *ssa.UnOp:
				addr = x.X
			}
			if ia, ok := addr.(*ssa.IndexAddr); ok {
				if k, ok := ia.Index.(*ssa.Const); ok && k.Value != nil {
					return k.Int64(), true
				}
			}
			return 0, false
		}
		dominates := func(s, r ssa.Instruction) bool {
			if s.Block() == r.Block() {
				for _, in := range s.Block().Instrs {
					if in == s {
						return true
					}
					if in == r {
						return false
					}
				}
			}
			return s.Block().Dominates(r.Block()) && li.blocks[s.Block()]
		}
		length := int64(-1)
		if sl, ok := a.base.(*ssa.Slice); ok {
			if al, ok := sl.X.(*ssa.Alloc); ok {
				if at, ok := al.Type().(*types.Pointer).Elem().Underlying().(*types.Array); ok {
					length = at.Len()
				}
			}
		}
		ok := true
		for _, r := range reads {
			ri, rconst := constIdx(r)
			if rconst {
				cov := false
				for _, s := range stores {
					if si, sc := constIdx(s); sc && si == ri && dominates(s, r) {
						cov = true
					}
				}
				if !cov {
					ok = false
				}
				continue
			}
			// read at a variable index or the whole array handed to a call: every
			// element must have been written earlier in the same iteration
			if length < 0 {
				ok = false
				continue
			}
			for k := int64(0); k < length; k++ {
				cov := false
				for _, s := range stores {
					if si, sc := constIdx(s); sc && si == k && dominates(s, r) {
						cov = true
					}
				}
				if !cov {
					ok = false
				}
			}
		}
		nm := a.name
		if nm == "" || nm == "makeslice" || nm == "slicelit" {
			for n, bs := range fr.names {
				for _, bnd := range bs {
					if bnd.val == a.base {
						nm = n
					}
				}
			}
		}
		if nm == "" {
			nm = a.base.Name()
		}
		c.structural("frame", "C06.no-hidden-carry:"+nm, ok, a.base.Pos(),
			fmt.Sprintf("local array %q written in the time loop is scratch (every read in an iteration follows a write of the same iteration); otherwise it carries state that is not in the state vector", nm))
	}
}

// ---- C14 ----

func (fr *Frame) checkPurity(li *loopInfo) {
	c := fr.c
	fc := fr.fc
	fn := fr.fn
	// reachable module functions
	reach := map[*ssa.Function]bool{}
	var visit func(f *ssa.Function)
	visit = func(f *ssa.Function) {
		if f == nil || reach[f] || len(f.Blocks) == 0 {
			return
		}
		pkg := f.Package()
		if pkg == nil && f.Parent() != nil {
			pkg = f.Parent().Package()
		}
		if pkg == nil || !strings.HasPrefix(pkg.Pkg.Path(), modulePrefix) {
			return
		}
		reach[f] = true
		for _, b := range f.Blocks {
			for _, in := range b.Instrs {
				switch x := in.(type) {
				case *ssa.Call:
					if callee := x.Call.StaticCallee(); callee != nil {
						visit(callee)
					}
				case *ssa.MakeClosure:
					visit(x.Fn.(*ssa.Function))
				}
			}
		}
	}
	visit(fn)
	globalWrite, nondet := "", ""
	for f := range reach {
		for _, b := range f.Blocks {
			for _, in := range b.Instrs {
				switch x := in.(type) {
				case *ssa.Store:
					a := x.Addr
					for {
						switch y := a.(type) {
						case *ssa.IndexAddr:
							a = y.X
							continue
						case *ssa.FieldAddr:
							a = y.X
							continue
						case *ssa.Slice:
							// a slice of a package-level array shares its storage
							a = y.X
							continue
						}
						break
					}
					if g, ok := a.(*ssa.Global); ok {
						globalWrite = fmt.Sprintf("%s stores to package-level variable %s", f.Name(), g.Name())
					}
				case *ssa.Go, *ssa.Select, *ssa.Send, *ssa.Range:
					nondet = fmt.Sprintf("%s uses %T", f.Name(), in)
				case *ssa.UnOp:
					if x.Op == token.ARROW {
						nondet = f.Name() + " receives from a channel"
					}
				case *ssa.Call:
					if callee := x.Call.StaticCallee(); callee != nil && callee.Package() != nil {
						switch callee.Package().Pkg.Path() {
						case "time", "math/rand", "os", "crypto/rand":
							nondet = fmt.Sprintf("%s calls %s", f.Name(), callee)
						}
					}
				}
			}
		}
	}
	c.structural("frame", "C14.no-global-write", globalWrite == "", fn.Pos(),
		"no function reachable from the kernel stores to a package-level variable"+ifs(globalWrite != "", ": "+globalWrite))
	c.structural("frame", "C14.deterministic", nondet == "", fn.Pos(),
		"no goroutine, channel, map iteration, clock or random source is reachable from the kernel"+ifs(nondet != "", ": "+nondet))
	// input series are read only inside the time loop
	if fc.CausalByEnsures {
		c.note("C14: causality of " + fn.Name() + " is carried by its element-wise postcondition (outputs at t are stated in terms of inputs at indices <= t)")
		return
	}
	inputs := fr.inputSeries()
	bad := ""
	for _, b := range fn.Blocks {
		inLoop := li != nil && li.blocks[b]
		if inLoop {
			continue
		}
		for _, in := range b.Instrs {
			call, ok := in.(*ssa.Call)
			if !ok || !call.Call.IsInvoke() {
				continue
			}
			p, isParam := call.Call.Value.(*ssa.Parameter)
			if !isParam || !inputs[p] {
				continue
			}
			switch call.Call.Method.Name() {
			case "Len1", "Len", "Shape", "NDims", "CopyFrom":
			case "Get", "Get1":
				if !readsIndexZero(call) {
					bad = fmt.Sprintf("%s.%s outside the time loop", p.Name(), call.Call.Method.Name())
				}
			default:
				bad = fmt.Sprintf("%s.%s outside the time loop", p.Name(), call.Call.Method.Name())
			}
		}
	}
	// an input series passed whole to another function outside the loop
	for _, b := range fn.Blocks {
		if li != nil && li.blocks[b] {
			continue
		}
		for _, in := range b.Instrs {
			call, ok := in.(*ssa.Call)
			if !ok || call.Call.IsInvoke() {
				continue
			}
			for _, a := range call.Call.Args {
				if p, ok := a.(*ssa.Parameter); ok && inputs[p] {
					if callee := call.Call.StaticCallee(); callee != nil && c.contractOf(callee) != nil {
						continue // delegated to a kernel under contract
					}
					bad = fmt.Sprintf("%s passed to %s outside the time loop", p.Name(), call.Call.Value.Name())
				}
			}
		}
	}
	c.structural("frame", "C14.inputs-read-in-time-loop-only", bad == "", fn.Pos(),
		"input series are read only inside the time loop (outputs at t cannot depend on later inputs through set-up code)"+ifs(bad != "", ": "+bad))
}

func ifs(b bool, s string) string {
	if b {
		return s
	}
	return ""
}

// inputSeries: array parameters that are neither tables nor assigned.
func (fr *Frame) inputSeries() map[*ssa.Parameter]bool {
	fc := fr.fc
	names := paramNames(fr.fn)
	if len(fc.Params) > 0 {
		names = fc.Params
	}
	out := map[*ssa.Parameter]bool{}
	for i, p := range fr.fn.Params {
		if !isNDIface(p.Type()) {
			continue
		}
		n := names[i]
		if contains(fc.Tables, n) {
			continue
		}
		assigned := false
		for _, a := range fc.Assigns {
			if strings.TrimSpace(a) == n+".cells" {
				assigned = true
			}
		}
		if !assigned {
			out[p] = true
		}
	}
	return out
}

// delegated: the value is (a component of) the result of a call to a kernel
// under contract to which the state parameter is passed.
func delegated(c *Ctx, v ssa.Value, sp *ssa.Parameter) bool {
	if ex, ok := v.(*ssa.Extract); ok {
		v = ex.Tuple
	}
	call, ok := v.(*ssa.Call)
	if !ok {
		return false
	}
	callee := call.Call.StaticCallee()
	if callee == nil {
		return false
	}
	fc := c.contractOf(callee)
	if fc == nil || !fc.HasStates {
		return false
	}
	for _, a := range call.Call.Args {
		if a == ssa.Value(sp) {
			return true
		}
	}
	return false
}

func delegatedArg(c *Ctx, p *ssa.Parameter) bool {
	for _, u := range *p.Referrers() {
		if call, ok := u.(*ssa.Call); ok {
			if callee := call.Call.StaticCallee(); callee != nil {
				if fc := c.contractOf(callee); fc != nil && fc.HasStates {
					return true
				}
			}
		}
	}
	return false
}

func sanitizeLabel(s string) string {
	return strings.Map(func(r rune) rune {
		switch {
		case r >= 'a' && r <= 'z', r >= 'A' && r <= 'Z', r >= '0' && r <= '9', r == '.', r == '-', r == '_', r == ':':
			return r
		}
		return '_'
	}, s)
}

// readsIndexZero: the call reads element 0 (the first timestep), which every
// output may depend on without breaking causality.
func readsIndexZero(call *ssa.Call) bool {
	if len(call.Call.Args) != 1 {
		return false
	}
	switch a := call.Call.Args[0].(type) {
	case *ssa.Const:
		return a.Value != nil && a.Value.ExactString() == "0"
	case *ssa.Slice:
		al, ok := a.X.(*ssa.Alloc)
		if !ok {
			return false
		}
		// every store into the index array that precedes the call (same block or a
		// dominating block) writes the constant 0
		refs := append([]ssa.Instruction{}, *al.Referrers()...)
		refs = append(refs, *a.Referrers()...)
		for _, u := range refs {
			ia, ok := u.(*ssa.IndexAddr)
			if !ok {
				continue
			}
			for _, uu := range *ia.Referrers() {
				st, ok := uu.(*ssa.Store)
				if !ok {
					continue
				}
				before := st.Block() == call.Block() || st.Block().Dominates(call.Block())
				if st.Block() == call.Block() {
					before = false
					for _, in := range st.Block().Instrs {
						if in == ssa.Instruction(st) {
							before = true
							break
						}
						if in == ssa.Instruction(call) {
							break
						}
					}
				}
				if !before {
					continue
				}
				k, isConst := st.Val.(*ssa.Const)
				if !isConst || k.Value == nil || k.Value.ExactString() != "0" {
					return false
				}
			}
		}
		return true
	}
	return false
}

// checkJoin (C05): the function that spawns one goroutine per cell waits for
// all of them: a spawn loop and a receive loop with the same bound, one `go`
// and one channel receive per iteration, the receive on the channel the
// goroutine sends on.
func (fr *Frame) checkJoin() {
	c := fr.c
	fn := fr.fn
	var goLoop, recvLoop *loopInfo
	var nGo, nRecv int
	for _, li := range fr.loops {
		if li.parent != nil {
			continue
		}
		for b := range li.blocks {
			for _, in := range b.Instrs {
				switch x := in.(type) {
				case *ssa.Go:
					goLoop = li
					nGo++
				case *ssa.UnOp:
					if x.Op == token.ARROW {
						recvLoop = li
						nRecv++
					}
				}
			}
		}
	}
	if goLoop == nil {
		return
	}
	ok := recvLoop != nil && recvLoop != goLoop && nGo == 1 && nRecv == 1
	why := ""
	if ok {
		// same bound
		bound := func(li *loopInfo) ssa.Value {
			if ifi, isIf := li.header.Instrs[len(li.header.Instrs)-1].(*ssa.If); isIf {
				if bo, isBo := ifi.Cond.(*ssa.BinOp); isBo && bo.Op == token.LSS {
					return bo.Y
				}
			}
			return nil
		}
		b1, b2 := bound(goLoop), bound(recvLoop)
		if b1 == nil || b1 != b2 {
			ok = false
			why = ": the receive loop does not run to the same bound as the spawn loop"
		}
		// the receive loop comes after the spawn loop
		if ok && !goLoop.header.Dominates(recvLoop.header) {
			ok = false
			why = ": the receive loop does not follow the spawn loop"
		}
	} else {
		why = ": expected one spawn loop with one `go` and one receive loop with one receive"
	}
	c.structural("frame", "C05.join", ok, fn.Pos(), "Run waits for every cell goroutine before it returns (one receive per spawned goroutine)"+why)

	// no variable that the goroutine bodies capture is written by the launching function
	// once the first goroutine may be running (from the spawn loop on): otherwise a body
	// reads a value that depends on how far the launcher has got
	conflict := ""
	for b := range goLoop.blocks {
		for _, in := range b.Instrs {
			g, isGo := in.(*ssa.Go)
			if !isGo {
				continue
			}
			mc, isMC := g.Call.Value.(*ssa.MakeClosure)
			if !isMC {
				continue
			}
			for _, bind := range mc.Bindings {
				al, isAlloc := bind.(*ssa.Alloc)
				if !isAlloc {
					continue
				}
				for _, wb := range fn.Blocks {
					if !goLoop.header.Dominates(wb) {
						continue // runs before any goroutine exists
					}
					for _, win := range wb.Instrs {
						if st, isSt := win.(*ssa.Store); isSt && st.Addr == ssa.Value(al) {
							conflict = fmt.Sprintf(": variable %s is captured by the cell goroutines and written by %s while they run", al.Comment, fn.Name())
						}
					}
				}
			}
		}
	}
	c.structural("frame", "C05.captured-not-written", conflict == "", fn.Pos(), "no variable captured by the cell goroutines is written by the launching function after the first spawn"+conflict)
}
