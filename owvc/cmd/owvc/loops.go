package main

// Loop cutting: invariant entry/preservation obligations, havoc of exactly
// what the loop body writes (found by a discovery pass over the body).

import (
	"os"
	"fmt"
	"go/token"
	"regexp"
	"strconv"
	"strings"

	"golang.org/x/tools/go/ssa"
)

type ctxSnap struct {
	lines     int
	obls      int
	declared  map[string]bool
	initHeaps map[string]T
	heapSorts map[string]Sort
	oblCount  map[string]int
	callOrd   map[string]int
	writeLog  int
	mathApps  map[string][][]T
	nnotes    map[string]bool
	recips    map[string]T
}

func copyMap[K comparable, V any](m map[K]V) map[K]V {
	n := make(map[K]V, len(m))
	for k, v := range m {
		n[k] = v
	}
	return n
}

func (c *Ctx) snapshot() ctxSnap {
	return ctxSnap{len(c.lines), len(c.obls), copyMap(c.declared), copyMap(c.initHeaps), copyMap(c.heapSorts),
		copyMap(c.oblCount), copyMap(c.callOrd), len(c.writeLog), copyMap(c.mathApps), copyMap(c.notes), copyMap(c.recips)}
}

func (c *Ctx) restore(s ctxSnap) {
	c.lines = c.lines[:s.lines]
	c.obls = c.obls[:s.obls]
	c.declared = s.declared
	c.initHeaps = s.initHeaps
	c.heapSorts = s.heapSorts
	c.oblCount = s.oblCount
	c.callOrd = s.callOrd
	c.mathApps = s.mathApps
	c.notes = s.nnotes
	c.recips = s.recips
}

var symNumRe = regexp.MustCompile(`([A-Za-z0-9_.$#]*)!(\d+)`)

// classifyKey: 0 = loop-invariant key, 1 = fresh object allocated in the
// loop, 2 = loop-variant.
func classifyKey(term string, cut int) int {
	res := 0
	for _, m := range symNumRe.FindAllStringSubmatch(term, -1) {
		n, _ := strconv.Atoi(m[2])
		if n <= cut {
			continue
		}
		if m[1] == "alloc" && res < 2 {
			res = 1
			continue
		}
		return 2
	}
	return res
}

func (fr *Frame) loopClauses(li *loopInfo, kind string) []*Clause {
	var out []*Clause
	if fr.fc == nil || li.ordinal < 0 {
		return nil
	}
	if kind == "invariant" && fr.top && len(fr.fc.Derived) > 0 && li.parent == nil && fr.timeLoopOf() == li {
		for _, d := range fr.fc.Derived {
			i := strings.Index(d, "=")
			src := strings.TrimSpace(d[:i]) + " == " + strings.TrimSpace(d[i+1:])
			out = append(out, &Clause{Kind: "invariant", Label: "C06.derived-carry", Props: []string{"C06"}, Src: src,
				Expr: parseExprSrc(src, fr.fc.File, fr.fc.Line), Loop: li.ordinal, File: fr.fc.File, Line: fr.fc.Line})
		}
	}
	for _, cl := range fr.fc.Clauses {
		if cl.Kind == kind && cl.Loop == li.ordinal {
			out = append(out, cl)
		}
	}
	return out
}

func (fr *Frame) cutLoop(li *loopInfo) *State {
	c := fr.c
	h := li.header
	entry, entryPhis := fr.mergeIncoming(h, func(p *ssa.BasicBlock) bool { return !li.blocks[p] })
	if entry == nil {
		return nil
	}
	li.entryVals = entryPhis

	// 1. invariant holds on entry
	for _, cl := range fr.loopClauses(li, "invariant") {
		env := fr.envAt(h, entry, entryPhis)
		if li.parent != nil && li.parent.headState != nil {
			env.pre = li.parent.headState
		}
		g := c.evalBool(env, cl.Expr)
		c.oblige(entry, "inv-entry", cl.Label, cl.Props, g, h.Instrs[0].Pos(), fmt.Sprintf("loop %d invariant holds on entry: %s", li.ordinal, cl.Src))
	}

	// 2. discovery pass: what does the body write?
	cut := c.nsym
	snap := c.snapshot()
	edges := copyMap(fr.edges)
	nrets := len(fr.rets)
	c.specMode++ // suppress obligations
	disc := entry.clone()
	for _, instr := range h.Instrs {
		if phi, ok := instr.(*ssa.Phi); ok {
			fr.vals[phi] = c.freshVal(disc, "d_"+phiName(phi), phi.Type())
		}
	}
	var body []*ssa.BasicBlock
	for _, b := range fr.ord {
		if li.blocks[b] {
			body = append(body, b)
		}
	}
	li.headState = disc.clone() // nested loops refer to it through pre()
	fr.runBlocks(body, disc)
	li.headState = nil
	c.specMode--
	log := append([]writeRec(nil), c.writeLog[snap.writeLog:]...)
	c.writeLog = c.writeLog[:snap.writeLog]
	c.restore(snap)
	fr.edges = edges
	fr.rets = fr.rets[:nrets]

	// 3. havoc
	st := entry.clone()
	whole := map[string]bool{}
	keyed := map[string][]T{}
	cells := map[string]bool{}
	for _, w := range log {
		if w.heap != "" {
			if _, ok := c.heapSorts[w.heap]; !ok {
				c.heapSorts[w.heap] = w.sort
			}
		}
		if w.heap == "" {
			if classifyKey(w.cell, cut) == 0 {
				if _, ok := entry.cells[w.cell]; ok {
					cells[w.cell] = true
				}
			}
			continue
		}
		if w.key == nil {
			whole[w.heap] = true
			continue
		}
		switch classifyKey(w.key.S, cut) {
		case 0:
			dup := false
			for _, k := range keyed[w.heap] {
				if k.S == w.key.S {
					dup = true
				}
			}
			if !dup {
				keyed[w.heap] = append(keyed[w.heap], *w.key)
			}
		case 1:
			// fresh object of this iteration: invisible at the loop head
		case 2:
			if os.Getenv("OWVC_DEBUG") != "" {
				fmt.Fprintf(os.Stderr, "loop havoc: heap %s written at loop-variant key %s\n", w.heap, w.key.S)
			}
			whole[w.heap] = true
		}
	}
	for _, name := range sortedKeys(whole) {
		k := c.heapSortOf(name, entry)
		c.setHeap(st, name, c.fresh("Hh_"+name, k), nil)
	}
	for _, name := range sortedKeys(keyed) {
		if whole[name] {
			continue
		}
		k := c.heapSortOf(name, entry)
		hcur := c.heap(st, name, k)
		for _, key := range keyed[name] {
			hcur = c.sto(hcur, key, c.fresh("Hk_"+name, k.elem()))
			kk := key
			c.writeLog = append(c.writeLog, writeRec{heap: name, key: &kk, sort: k})
		}
		st.heaps[name] = c.def("Hh_"+name, hcur)
	}
	for _, key := range sortedKeys(cells) {
		t := c.cellTypes[key]
		c.setCell(st, key, c.freshVal(st, "cell_"+key, t))
	}
	na := c.fresh("alloc", SInt)
	c.emit(fmt.Sprintf("(assert (>= %s %s))", na.S, entry.alloc.S))
	st.alloc = na
	for _, instr := range h.Instrs {
		if phi, ok := instr.(*ssa.Phi); ok {
			fr.vals[phi] = c.freshVal(st, phiName(phi), phi.Type())
		}
	}

	// 4. assume the invariant at the head of an arbitrary iteration
	for _, cl := range fr.loopClauses(li, "invariant") {
		env := fr.envAt(h, st, nil)
		if li.parent != nil && li.parent.headState != nil {
			env.pre = li.parent.headState
		}
		c.assume(st.reach, c.evalBool(env, cl.Expr))
	}
	for _, cl := range fr.loopClauses(li, "loopheadinst") {
		env := fr.envAt(h, st, nil)
		if li.parent != nil && li.parent.headState != nil {
			env.pre = li.parent.headState
		}
		c.assume(st.reach, c.lemmaInstance(env, cl.Src, cl.File, cl.Line))
	}
	li.headState = st.clone()
	return st
}

// backEdge: invariant preservation and per-iteration step clauses.
func (fr *Frame) backEdge(b, h *ssa.BasicBlock, e *State) {
	c := fr.c
	li := fr.loops[h]
	if li == nil {
		panic(vcErr("back edge to a non-header"))
	}
	predIdx := -1
	for i, p := range h.Preds {
		if p == b {
			predIdx = i
		}
	}
	back := map[*ssa.Phi]Val{}
	for _, instr := range h.Instrs {
		if phi, ok := instr.(*ssa.Phi); ok {
			back[phi] = fr.get(phi.Edges[predIdx])
		}
	}
	pos := token.NoPos
	if len(b.Instrs) > 0 {
		pos = b.Instrs[len(b.Instrs)-1].Pos()
	}
	if !pos.IsValid() && len(h.Instrs) > 0 {
		pos = h.Instrs[0].Pos()
	}
	for _, cl := range fr.loopClauses(li, "loopinst") {
		env := fr.envAt(b, e, nil)
		env.atLatch = true
		env.pre = li.headState
		env.postPhis = back
		if li.headState == nil {
			continue
		}
		c.assume(e.reach, c.lemmaInstance(env, cl.Src, cl.File, cl.Line))
	}
	// "prestep" clauses: facts about one iteration (pre()/post()), proved at the
	// end of the body and available to the invariant-preservation obligations
	if li.headState != nil {
		for _, cl := range fr.loopClauses(li, "prestep") {
			env := fr.envAt(b, e, nil)
			env.atLatch = true
			env.pre = li.headState
			env.postPhis = back
			g := c.evalBool(env, cl.Expr)
			c.oblige(e, "step", cl.Label, cl.Props, g, pos, fmt.Sprintf("loop %d iteration fact: %s", li.ordinal, cl.Src))
			c.assume(e.reach, g)
		}
	}
	for _, cl := range fr.loopClauses(li, "invariant") {
		env := fr.envAt(b, e, back)
		env.atLatch = true
		if li.parent != nil && li.parent.headState != nil {
			env.pre = li.parent.headState
		}
		g := c.evalBool(env, cl.Expr)
		o := c.oblige(e, "inv-preserve", cl.Label, cl.Props, g, pos, fmt.Sprintf("loop %d invariant is preserved: %s", li.ordinal, cl.Src))
		if o != nil && li.headState != nil {
			if vals, plan := fr.stepReplayValues(li, e); plan != nil {
				plan.Kind = "inv"
				plan.Clause = cl
				if fr.fc != nil && len(fr.fc.Params) > 0 {
					plan.Names = fr.fc.Params
				}
				o.Values = vals
				o.Replay = plan
			}
		}
	}
	if li.headState == nil {
		return
	}
	var stepish []*Clause
	if fr.fc != nil && li.ordinal >= 0 {
		for _, cl := range fr.fc.Clauses {
			if (cl.Kind == "step" || cl.Kind == "steplemma") && cl.Loop == li.ordinal {
				stepish = append(stepish, cl)
			}
		}
	}
	for _, cl := range stepish {
		env := fr.envAt(b, e, nil)
		env.atLatch = true
		env.pre = li.headState
		env.postPhis = back
		if cl.Kind == "steplemma" {
			// "loop N step instantiate L(args)": a lemma instance available to the step clauses after it only
			c.assume(e.reach, c.lemmaInstance(env, cl.Src, cl.File, cl.Line))
			continue
		}
		g := c.evalBool(env, cl.Expr)
		goal := g
		for _, u := range cl.Using {
			goal = implies(c.lemmaInstance(env, u, cl.File, cl.Line), goal)
		}
		o := c.oblige(e, "step", cl.Label, cl.Props, goal, pos, fmt.Sprintf("loop %d step: %s", li.ordinal, cl.Src))
		if o != nil {
			if vals, plan := fr.stepReplayValues(li, e); plan != nil {
				plan.Clause = cl
				if fr.fc != nil && len(fr.fc.Params) > 0 {
					plan.Names = fr.fc.Params
				}
				o.Values = vals
				o.Replay = plan
			}
		}
		// later step clauses of this loop may build on this one (each is still
		// proved on its own, in order)
		c.assume(e.reach, g)
	}
}
