package main

// Location model of the ND interface family, used for the generated model
// wrappers (C04, C05). An array value x is (root, rank, extents, index map):
// element (a,b,c) of x lives at cell nd_idx(x,a,b,c) of storage nd_root(x).
// Views share their parent's root and map indices affinely (what the proved
// view algebra of C01 gives: element v of slice(loc,dims,step) is element
// loc + v*step of the parent); reshaping away unit axes keeps the row-major
// order. Contents live in the two-level heap LOC.<sort>[root][cell].
//
// These are the interface contracts of the ND family at wrapper level; they
// are built into the engine (listed in the evidence as assumed interface
// contracts) and are justified by the array-level contracts of C01-C03.

import (
	"fmt"
	"go/token"
	"go/types"
	"strings"

	"golang.org/x/tools/go/ssa"
)

func (c *Ctx) locDecls() {
	c.declareFun("nd_root", []Sort{SInt}, SInt)
	c.declareFun("nd_rank", []Sort{SInt}, SInt)
	c.declareFun("nd_dim", []Sort{SInt, SInt}, SInt)
	c.declareFun("nd_idx", []Sort{SInt, SInt, SInt, SInt}, SInt)
}

func (c *Ctx) ndRoot(x IfaceV) T { c.locDecls(); return app(SInt, "nd_root", x.Ref) }
func (c *Ctx) ndRank(x IfaceV) T { c.locDecls(); return app(SInt, "nd_rank", x.Ref) }
func (c *Ctx) ndDim(x IfaceV, k T) T {
	c.locDecls()
	return app(SInt, "nd_dim", x.Ref, k)
}
func (c *Ctx) ndIdx(x IfaceV, a, b, d T) T {
	c.locDecls()
	return app(SInt, "nd_idx", x.Ref, a, b, d)
}

func (c *Ctx) locHeapName(x IfaceV) (string, Sort) {
	k := SReal
	if x.Typ != nil && isNDIface(x.Typ) {
		k = ndElemSort(x.Typ)
	}
	return "LOC." + string(k), k
}

func (c *Ctx) locRead(st *State, x IfaceV, a, b, d T) T {
	name, k := c.locHeapName(x)
	h := c.heap(st, name, heapSort(k))
	return c.sel(c.sel(h, c.ndRoot(x)), c.ndIdx(x, a, b, d))
}

// locWrite stores v at element (a,b,d) of x and generates the frame obligation.
func (fr *Frame) locWrite(st *State, x IfaceV, a, b, d T, v T, pos token.Pos) {
	c := fr.c
	name, k := c.locHeapName(x)
	h := c.heap(st, name, heapSort(k))
	root := c.ndRoot(x)
	idx := c.ndIdx(x, a, b, d)
	fr.locFrame(st, x, root, idx, pos, "element write")
	st.heaps[name] = c.def("LOC", c.sto(h, root, c.sto(c.sel(h, root), idx, v)))
	c.writeLog = append(c.writeLog, writeRec{heap: name, key: nil, sort: heapSort(k)})
}

// locFrame: a written cell must be allowed by a "writes" clause of the
// contract (clauses of kind "writes": Boolean over wroot, widx).
func (fr *Frame) locFrame(st *State, x IfaceV, root, idx T, pos token.Pos, what string) {
	c := fr.c
	if c.fc == nil || c.specMode > 0 {
		return
	}
	var alts []T
	for _, cl := range c.fc.Clauses {
		if cl.Kind != "writes" {
			continue
		}
		env := fr.envAt(fr.curBlock, st, nil)
		env.atLatch = true
		env.bound = map[string]Val{"wroot": root, "widx": idx}
		alts = append(alts, c.evalBool(env, cl.Expr))
	}
	if len(alts) == 0 {
		return
	}
	c.oblige(st, "frame", "C04.frame", []string{"C04", "C05"}, or(alts...), pos, what+" stays within the cells this call may write (own output rows and state row)")
}

// sliceElem returns element k of an index vector (0 when the vector is shorter).
func (c *Ctx) vecElem(st *State, v SliceV, k int64, dflt T) T {
	h := c.heap(st, "H.Int", heapSort(SInt))
	return ite(app(SBool, "<", intLit(k), v.Len), c.sel(c.sel(h, v.ID), addInt(v.Off, intLit(k))), dflt)
}

func (fr *Frame) locInvoke(recv IfaceV, rt types.Type, m *types.Func, args []Val, st *State, pos token.Pos) []Val {
	c := fr.c
	recv.Typ = rt
	name := m.Name()
	sig := m.Type().(*types.Signature)
	c.oblige(st, "nil", "", nil, app(SBool, ">", recv.Ref, intLit(0)), pos, "receiver of "+name+" is not nil")
	zero := intLit(0)
	inRange := func(k T, axis int64) T {
		return and(app(SBool, "<=", zero, k), app(SBool, "<", k, c.ndDim(recv, intLit(axis))))
	}
	switch name {
	case "Len":
		ax := args[0].(T)
		c.oblige(st, "bounds", "", nil, and(app(SBool, "<=", zero, ax), app(SBool, "<", ax, c.ndRank(recv))), pos, "axis in range")
		return []Val{c.ndDim(recv, ax)}
	case "Len1":
		return []Val{c.ndDim(recv, intLit(0))}
	case "Len2":
		return []Val{c.ndDim(recv, intLit(1))}
	case "Len3":
		return []Val{c.ndDim(recv, intLit(2))}
	case "NDims":
		return []Val{c.ndRank(recv)}
	case "Shape":
		id := c.newID(st)
		arr := c.fresh("shape", arrSort(SInt))
		c.nsym++
		q := fmt.Sprintf("q_k_%d", c.nsym)
		c.emit(fmt.Sprintf("(assert (forall ((%s Int)) (! (= (select %s %s) (nd_dim %s %s)) :pattern ((select %s %s)))))", q, arr.S, q, recv.Ref.S, q, arr.S, q))
		h := c.heap(st, "H.Int", heapSort(SInt))
		c.setHeap(st, "H.Int", c.def("H", c.sto(h, id, arr)), &id)
		return []Val{SliceV{id, zero, c.ndRank(recv), SInt, types.Typ[types.Int]}}
	case "NewIndex":
		v := args[0].(T)
		id := c.newID(st)
		h := c.heap(st, "H.Int", heapSort(SInt))
		c.setHeap(st, "H.Int", c.def("H", c.sto(h, id, T{"((as const (Array Int Int)) " + v.S + ")", arrSort(SInt)})), &id)
		return []Val{SliceV{id, zero, c.ndRank(recv), SInt, types.Typ[types.Int]}}
	case "Slice":
		loc := args[0].(SliceV)
		dims := args[1].(SliceV)
		step := args[2].(SliceV)
		r := IfaceV{Ref: c.newID(st), Typ: sig.Results().At(0).Type()}
		one := intLit(1)
		var l, s [3]T
		for k := int64(0); k < 3; k++ {
			l[k] = c.def("sl", c.vecElem(st, loc, k, zero))
			sk := c.vecElem(st, step, k, one)
			s[k] = c.def("ss", ite(eq(step.ID, zero), one, sk))
		}
		c.assume(st.reach, eq(c.ndRoot(r), c.ndRoot(recv)))
		c.assume(st.reach, eq(c.ndRank(r), dims.Len))
		for k := int64(0); k < 3; k++ {
			dk := c.vecElem(st, dims, k, one)
			c.assume(st.reach, implies(app(SBool, "<", intLit(k), dims.Len), eq(c.ndDim(r, intLit(k)), dk)))
			// the slice stays inside its parent (obligation of the caller of Slice)
			if c.fc != nil && c.fc.ViewsUnchecked {
				c.note("views unchecked: Slice performs no bounds checks; views that extend beyond their parent are accepted here and the flat-index safety of reads through them is not covered")
				continue
			}
			c.oblige(st, "pre@call", "C04.slice-in-bounds", []string{"C04"}, implies(app(SBool, "<", intLit(k), dims.Len),
				and(app(SBool, "<=", zero, l[k]), app(SBool, ">=", dk, zero), app(SBool, ">=", s[k], one),
					implies(app(SBool, ">=", dk, one), app(SBool, "<=", app(SInt, "+", l[k], app(SInt, "*", app(SInt, "-", dk, one), s[k])), app(SInt, "-", c.ndDim(recv, intLit(k)), one))))), pos,
				fmt.Sprintf("Slice: axis %d of the requested view lies inside the array", k))
		}
		c.nsym++
		n := c.nsym
		qa, qb, qc := fmt.Sprintf("q_a_%d", n), fmt.Sprintf("q_b_%d", n), fmt.Sprintf("q_c_%d", n)
		c.emit(fmt.Sprintf("(assert (=> %s (forall ((%s Int) (%s Int) (%s Int)) (! (= (nd_idx %s %s %s %s) (nd_idx %s (+ %s (* %s %s)) (+ %s (* %s %s)) (+ %s (* %s %s)))) :pattern ((nd_idx %s %s %s %s))))))",
			st.reach.S, qa, qb, qc, r.Ref.S, qa, qb, qc, recv.Ref.S, l[0].S, qa, s[0].S, l[1].S, qb, s[1].S, l[2].S, qc, s[2].S, r.Ref.S, qa, qb, qc))
		return []Val{r}
	case "MustReshape":
		ns := args[0].(SliceV)
		r := IfaceV{Ref: c.newID(st), Typ: sig.Results().At(0).Type()}
		one := intLit(1)
		d := func(x IfaceV, k int64) T { return c.ndDim(x, intLit(k)) }
		var nd [3]T
		for k := int64(0); k < 3; k++ {
			nd[k] = c.def("rs", c.vecElem(st, ns, k, one))
		}
		oldSize := func() T {
			rk := c.ndRank(recv)
			return ite(eq(rk, one), d(recv, 0), ite(eq(rk, intLit(2)), app(SInt, "*", d(recv, 0), d(recv, 1)), app(SInt, "*", app(SInt, "*", d(recv, 0), d(recv, 1)), d(recv, 2))))
		}()
		newSize := ite(eq(ns.Len, one), nd[0], ite(eq(ns.Len, intLit(2)), app(SInt, "*", nd[0], nd[1]), app(SInt, "*", app(SInt, "*", nd[0], nd[1]), nd[2])))
		c.oblige(st, "pre@call", "C04.reshape-size", []string{"C04"}, and(eq(oldSize, newSize), app(SBool, ">=", ns.Len, one), app(SBool, "<=", ns.Len, intLit(3))), pos,
			"MustReshape: element counts agree (otherwise it panics)")
		c.assume(st.reach, eq(c.ndRoot(r), c.ndRoot(recv)))
		c.assume(st.reach, eq(c.ndRank(r), ns.Len))
		for k := int64(0); k < 3; k++ {
			c.assume(st.reach, implies(app(SBool, "<", intLit(k), ns.Len), eq(c.ndDim(r, intLit(k)), nd[k])))
		}
		c.nsym++
		n := c.nsym
		qa, qb := fmt.Sprintf("q_a_%d", n), fmt.Sprintf("q_b_%d", n)
		rr, xr := r.Ref.S, recv.Ref.S
		rk := c.ndRank(recv).S
		// unit leading axes dropped; the row-major order is unchanged
		c.emit(fmt.Sprintf("(assert (=> (and %s (= %s 2) (= (nd_dim %s 0) 1) (= %s 1)) (forall ((%s Int)) (! (= (nd_idx %s %s 0 0) (nd_idx %s 0 %s 0)) :pattern ((nd_idx %s %s 0 0))))))",
			st.reach.S, rk, xr, ns.Len.S, qa, rr, qa, xr, qa, rr, qa))
		c.emit(fmt.Sprintf("(assert (=> (and %s (= %s 3) (= (nd_dim %s 0) 1) (= %s 2)) (forall ((%s Int) (%s Int)) (! (= (nd_idx %s %s %s 0) (nd_idx %s 0 %s %s)) :pattern ((nd_idx %s %s %s 0))))))",
			st.reach.S, rk, xr, ns.Len.S, qa, qb, rr, qa, qb, xr, qa, qb, rr, qa, qb))
		c.emit(fmt.Sprintf("(assert (=> (and %s (= %s 3) (= (nd_dim %s 0) 1) (= (nd_dim %s 1) 1) (= %s 1)) (forall ((%s Int)) (! (= (nd_idx %s %s 0 0) (nd_idx %s 0 0 %s)) :pattern ((nd_idx %s %s 0 0))))))",
			st.reach.S, rk, xr, xr, ns.Len.S, qa, rr, qa, xr, qa, rr, qa))
		// same shape: identity
		c.emit(fmt.Sprintf("(assert (=> (and %s (= %s %s) (= (nd_dim %s 0) %s) (=> (>= %s 2) (= (nd_dim %s 1) %s)) (=> (>= %s 3) (= (nd_dim %s 2) %s))) (forall ((%s Int) (%s Int) (q_c_%d Int)) (! (= (nd_idx %s %s %s q_c_%d) (nd_idx %s %s %s q_c_%d)) :pattern ((nd_idx %s %s %s q_c_%d))))))",
			st.reach.S, rk, ns.Len.S, xr, nd[0].S, rk, xr, nd[1].S, rk, xr, nd[2].S, qa, qb, n, rr, qa, qb, n, xr, qa, qb, n, rr, qa, qb, n))
		c.note("wrapper-level MustReshape contract: defined for reshapes that drop leading unit axes or keep the shape (all reshapes in the generated wrappers); other reshapes leave the index map unspecified")
		return []Val{r}
	case "Apply":
		// Apply(loc, dim, step, vals): element loc + j*step*e_dim = vals[j]
		loc := args[0].(SliceV)
		dim, ok1 := litInt(args[1].(T))
		stp, ok2 := litInt(args[2].(T))
		vals := args[3].(SliceV)
		if !ok1 || !ok2 || stp != 1 || dim < 0 || dim > 2 {
			panic(vcErr("ND method Apply is modelled at wrapper level for a literal axis and unit step only"))
		}
		var lo, ext [3]T
		for k := int64(0); k < 3; k++ {
			lo[k] = c.def("al", c.vecElem(st, loc, k, zero))
			ext[k] = intLit(1)
		}
		ext[dim] = vals.Len
		c.oblige(st, "pre@call", "C04.apply-rank", []string{"C04", "C17"}, eq(loc.Len, c.ndRank(recv)), pos, "Apply: the location has one entry per axis")
		hv := c.heap(st, "H."+string(vals.Elem), heapSort(vals.Elem))
		varr := c.sel(hv, vals.ID)
		fr.locBulkWrite(st, recv, lo, ext, func(a [3]string) string {
			return fmt.Sprintf("(select %s (+ %s (- %s %s)))", varr.S, vals.Off.S, a[dim], lo[dim].S)
		}, pos, "Apply")
		return nil
	case "ApplySlice", "CopyFrom":
		// ApplySlice(loc, step, vals): element loc + v*step = vals[v] for every index v of vals
		var loc, step SliceV
		var src IfaceV
		if name == "CopyFrom" {
			src = args[0].(IfaceV)
			loc = SliceV{zero, zero, zero, SInt, types.Typ[types.Int]}
			step = loc
		} else {
			loc = args[0].(SliceV)
			step = args[1].(SliceV)
			src = args[2].(IfaceV)
			c.oblige(st, "pre@call", "C04.apply-rank", []string{"C04", "C17"}, eq(loc.Len, c.ndRank(recv)), pos, "ApplySlice: the location has one entry per axis")
		}
		src.Typ = rt
		c.oblige(st, "nil", "", nil, app(SBool, ">", src.Ref, zero), pos, "source array of "+name+" is not nil")
		c.oblige(st, "pre@call", "C04.apply-rank", []string{"C04", "C17"}, eq(c.ndRank(src), c.ndRank(recv)), pos, name+": source and destination have the same rank")
		c.oblige(st, "pre@call", "C04.apply-no-overlap", []string{"C04", "C17"}, not(eq(c.ndRoot(src), c.ndRoot(recv))), pos, name+": source and destination do not share storage")
		var lo, ext [3]T
		one := intLit(1)
		for k := int64(0); k < 3; k++ {
			lo[k] = c.def("al", c.vecElem(st, loc, k, zero))
			inr := app(SBool, "<", intLit(k), c.ndRank(src))
			ext[k] = c.def("ae", ite(inr, c.ndDim(src, intLit(k)), one))
			sk := c.def("as", ite(eq(step.ID, zero), one, c.vecElem(st, step, k, one)))
			// a step other than 1 is only modelled on axes of extent 1 (where it is irrelevant)
			c.oblige(st, "pre@call", "C04.apply-step", []string{"C04", "C17"}, implies(inr, or(eq(sk, one), eq(ext[k], one))), pos,
				fmt.Sprintf("%s: axis %d has unit step or a single element", name, k))
		}
		name2, ks := c.locHeapName(src)
		hs := c.heap(st, name2, heapSort(ks))
		sarr := c.sel(hs, c.ndRoot(src))
		fr.locBulkWrite(st, recv, lo, ext, func(a [3]string) string {
			return fmt.Sprintf("(select %s (nd_idx %s (- %s %s) (- %s %s) (- %s %s)))", sarr.S, src.Ref.S, a[0], lo[0].S, a[1], lo[1].S, a[2], lo[2].S)
		}, pos, name)
		return nil
	case "Unroll":
		c.oblige(st, "pre@call", "C04.unroll-rank1", []string{"C04", "C17"}, eq(c.ndRank(recv), intLit(1)), pos, "Unroll is modelled at wrapper level for rank-1 views")
		nameH, k := c.locHeapName(recv)
		h := c.heap(st, nameH, heapSort(k))
		id := c.newID(st)
		arr := c.fresh("unr", arrSort(k))
		c.nsym++
		q := fmt.Sprintf("q_k_%d", c.nsym)
		c.emit(fmt.Sprintf("(assert (=> %s (forall ((%s Int)) (! (= (select %s %s) (select %s (nd_idx %s %s 0 0))) :pattern ((select %s %s))))))",
			st.reach.S, q, arr.S, q, c.sel(h, c.ndRoot(recv)).S, recv.Ref.S, q, arr.S, q))
		hn := "H." + string(k)
		hh := c.heap(st, hn, heapSort(k))
		c.setHeap(st, hn, c.def("H", c.sto(hh, id, arr)), &id)
		c.note("wrapper-level Unroll contract: the result holds the view's elements in order; whether it aliases the view's own cells (contiguous Go arrays) is not modelled: writes through it land in the view's own cells (A-UNROLL-ALIAS)")
		et := types.Type(types.Typ[types.Float64])
		if sl, ok := sig.Results().At(0).Type().Underlying().(*types.Slice); ok {
			et = sl.Elem()
		}
		return []Val{SliceV{id, zero, c.ndDim(recv, zero), k, et}}
	case "Get1":
		a := args[0].(T)
		c.oblige(st, "pre@call", "C04.get1-in-range", []string{"C04"}, and(eq(c.ndRank(recv), intLit(1)), inRange(a, 0)), pos, "Get1 on a rank-1 view with an index in range")
		return []Val{c.locRead(st, recv, a, zero, zero)}
	case "Set1":
		a := args[0].(T)
		c.oblige(st, "pre@call", "C04.set1-in-range", []string{"C04"}, and(eq(c.ndRank(recv), intLit(1)), inRange(a, 0)), pos, "Set1 on a rank-1 view with an index in range")
		fr.locWrite(st, recv, a, zero, zero, args[1].(T), pos)
		return nil
	case "Get2":
		return []Val{c.locRead(st, recv, args[0].(T), args[1].(T), zero)}
	case "Get3":
		return []Val{c.locRead(st, recv, args[0].(T), args[1].(T), args[2].(T))}
	case "Set2":
		fr.locWrite(st, recv, args[0].(T), args[1].(T), zero, args[2].(T), pos)
		return nil
	case "Set3":
		fr.locWrite(st, recv, args[0].(T), args[1].(T), args[2].(T), args[3].(T), pos)
		return nil
	case "Get":
		loc := args[0].(SliceV)
		return []Val{c.locRead(st, recv, c.vecElem(st, loc, 0, zero), c.vecElem(st, loc, 1, zero), c.vecElem(st, loc, 2, zero))}
	case "Set":
		loc := args[0].(SliceV)
		fr.locWrite(st, recv, c.vecElem(st, loc, 0, zero), c.vecElem(st, loc, 1, zero), c.vecElem(st, loc, 2, zero), args[1].(T), pos)
		return nil
	}
	panic(vcErr("ND method %s is not modelled at wrapper level", name))
}

// locKernelCall: a model kernel called from a wrapper. The kernel's own
// contract is proved separately; here only its frame matters: it may write the
// cells of the arrays its contract assigns, and returns unconstrained states.
func (fr *Frame) locKernelCall(callee *ssa.Function, kfc *FuncContract, args []Val, st *State, pos token.Pos) []Val {
	c := fr.c
	names := paramNames(callee)
	if len(kfc.Params) > 0 {
		names = kfc.Params
	}
	zero := intLit(0)
	kenv := &Env{c: c, fr: fr, st: st, names: map[string]Val{}}
	for i, n := range names {
		if i < len(args) {
			kenv.names[n] = args[i]
		}
	}
	pre := st.clone()
	// slices the kernel updates in place
	for _, a := range kfc.Assigns {
		a = strings.TrimSpace(a)
		if strings.HasSuffix(a, "[*]") {
			fr.havocTarget(kenv, st, a)
		}
	}
	for i, p := range callee.Params {
		x, ok := args[i].(IfaceV)
		if !ok || !isNDIface(p.Type()) {
			continue
		}
		x.Typ = p.Type()
		assigned := false
		for _, a := range kfc.Assigns {
			if strings.TrimSpace(a) == names[i]+".cells" {
				assigned = true
			}
		}
		// every array handed to a kernel is a rank-1 series
		c.oblige(st, "pre@call", "C04.kernel-arg-rank1", []string{"C04"}, implies(app(SBool, ">", x.Ref, zero), eq(c.ndRank(x), intLit(1))), pos,
			fmt.Sprintf("kernel argument %s is a rank-1 view", names[i]))
		if !assigned {
			continue
		}
		// frame: each cell of the output series must be writable by this cell's run
		name, k := c.locHeapName(x)
		h := c.heap(st, name, heapSort(k))
		root := c.ndRoot(x)
		c.nsym++
		qt := T{fmt.Sprintf("q_t_%d", c.nsym), SInt}
		if c.fc != nil {
			var alts []T
			for _, cl := range c.fc.Clauses {
				if cl.Kind != "writes" {
					continue
				}
				env := fr.envAt(fr.curBlock, st, nil)
				env.atLatch = true
				env.bound = map[string]Val{"wroot": root, "widx": c.ndIdx(x, qt, zero, zero)}
				c.inQuant++
				alts = append(alts, c.evalBool(env, cl.Expr))
				c.inQuant--
			}
			if len(alts) > 0 {
				g := T{fmt.Sprintf("(forall ((%s Int)) (=> (and (<= 0 %s) (< %s %s)) %s))", qt.S, qt.S, qt.S, c.ndDim(x, zero).S, or(alts...).S), SBool}
				c.oblige(st, "frame", "C04.frame", []string{"C04", "C05"}, g, pos, fmt.Sprintf("the output series %s written by the kernel lies within the cells this call may write", names[i]))
			}
		}
		// havoc exactly those cells
		na := c.fresh("LOCk", arrSort(k))
		c.nsym++
		qj := fmt.Sprintf("q_j_%d", c.nsym)
		oldA := c.sel(h, root)
		c.emit(fmt.Sprintf("(assert (=> %s (forall ((%s Int)) (! (=> (forall ((%s Int)) (=> (and (<= 0 %s) (< %s %s)) (not (= %s (nd_idx %s %s 0 0))))) (= (select %s %s) (select %s %s))) :pattern ((select %s %s))))))",
			st.reach.S, qj, qt.S, qt.S, qt.S, c.ndDim(x, zero).S, qj, x.Ref.S, qt.S, na.S, qj, oldA.S, qj, na.S, qj))
		st.heaps[name] = c.def("LOC", c.sto(h, root, na))
		c.writeLog = append(c.writeLog, writeRec{heap: name, key: nil, sort: heapSort(k)})
	}
	var out []Val
	rs := callee.Signature.Results()
	post := &Env{c: c, fr: fr, st: st, old: pre, names: copyMap(kenv.names), oldNames: kenv.names}
	for i := 0; i < rs.Len(); i++ {
		v := c.freshVal(st, "k_"+callee.Name(), rs.At(i).Type())
		out = append(out, v)
		if i < len(kfc.Results) {
			post.names[kfc.Results[i]] = v
		}
		post.names[fmt.Sprintf("r%d", i)] = v
		if rs.Len() == 1 {
			post.names["result"] = v
		}
	}
	// the kernel's proved postconditions about plain values (lengths of returned
	// buffers and the like) are available to the wrapper; those about array
	// contents are not needed here (C04 composes them with C14)
	for _, cl := range kfc.Clauses {
		if cl.Kind != "ensures" || !strings.Contains(cl.Label, "shape") {
			continue
		}
		c.assume(st.reach, c.evalBool(post, cl.Expr))
	}
	return out
}

// locConstructor: data.NewArrayND... at wrapper level: a fresh, zeroed root.
func (fr *Frame) locConstructor(callee *ssa.Function, args []Val, st *State) ([]Val, bool) {
	c := fr.c
	name := callee.Name()
	var rank int64
	switch {
	case strings.HasPrefix(name, "NewArray1D"):
		rank = 1
	case strings.HasPrefix(name, "NewArray2D"):
		rank = 2
	case strings.HasPrefix(name, "NewArray3D"):
		rank = 3
	default:
		return nil, false
	}
	r := IfaceV{Ref: c.newID(st), Typ: callee.Signature.Results().At(0).Type()}
	c.assume(st.reach, eq(c.ndRank(r), intLit(rank)))
	c.assume(st.reach, eq(c.ndRoot(r), r.Ref))
	for k := int64(0); k < rank; k++ {
		c.assume(st.reach, eq(c.ndDim(r, intLit(k)), args[k].(T)))
	}
	nm, k := c.locHeapName(r)
	h := c.heap(st, nm, heapSort(k))
	st.heaps[nm] = c.def("LOC", c.sto(h, r.Ref, zeroOf(arrSort(k))))
	c.writeLog = append(c.writeLog, writeRec{heap: nm, key: nil, sort: heapSort(k)})
	c.assume(st.reach, c.rootInjective(r))
	return []Val{r}, true
}

// rootInjective: distinct in-range index triples of a root array are distinct cells.
func (c *Ctx) rootInjective(x IfaceV) T {
	c.locDecls()
	c.nsym++
	n := c.nsym
	v := func(s string) string { return fmt.Sprintf("q_%s_%d", s, n) }
	rng := func(a string, k int) string {
		return fmt.Sprintf("(<= 0 %s) (or (>= %d (nd_rank %s)) (< %s (nd_dim %s %d))) (or (< %d (nd_rank %s)) (= %s 0))", a, k, x.Ref.S, a, x.Ref.S, k, k, x.Ref.S, a)
	}
	return T{fmt.Sprintf("(forall ((%s Int) (%s Int) (%s Int) (%s Int) (%s Int) (%s Int)) (! (=> (and %s %s %s %s %s %s (= (nd_idx %s %s %s %s) (nd_idx %s %s %s %s))) (and (= %s %s) (= %s %s) (= %s %s))) :pattern ((nd_idx %s %s %s %s) (nd_idx %s %s %s %s))))",
		v("a"), v("b"), v("c"), v("d"), v("e"), v("f"),
		rng(v("a"), 0), rng(v("b"), 1), rng(v("c"), 2), rng(v("d"), 0), rng(v("e"), 1), rng(v("f"), 2),
		x.Ref.S, v("a"), v("b"), v("c"), x.Ref.S, v("d"), v("e"), v("f"),
		v("a"), v("d"), v("b"), v("e"), v("c"), v("f"),
		x.Ref.S, v("a"), v("b"), v("c"), x.Ref.S, v("d"), v("e"), v("f")), SBool}
}

func litInt(t T) (int64, bool) {
	var n int64
	if _, err := fmt.Sscanf(t.S, "%d", &n); err == nil && fmt.Sprint(n) == t.S {
		return n, true
	}
	return 0, false
}

// locBulkWrite: every element (A,B,C) of x with lo <= (A,B,C) < lo+ext receives
// val(A,B,C); all other cells of the root keep their contents. Obligations: the
// box lies inside x, its cells are pairwise distinct, and it is within the
// cells this call may write.
func (fr *Frame) locBulkWrite(st *State, x IfaceV, lo, ext [3]T, val func(a [3]string) string, pos token.Pos, what string) {
	c := fr.c
	name, k := c.locHeapName(x)
	h := c.heap(st, name, heapSort(k))
	root := c.ndRoot(x)
	c.nsym++
	n := c.nsym
	v := [3]string{fmt.Sprintf("q_A_%d", n), fmt.Sprintf("q_B_%d", n), fmt.Sprintf("q_C_%d", n)}
	w := [3]string{fmt.Sprintf("q_D_%d", n), fmt.Sprintf("q_E_%d", n), fmt.Sprintf("q_F_%d", n)}
	box := func(a [3]string) string {
		s := "(and"
		for i := 0; i < 3; i++ {
			s += fmt.Sprintf(" (<= %s %s) (< %s (+ %s %s))", lo[i].S, a[i], a[i], lo[i].S, ext[i].S)
		}
		return s + ")"
	}
	zero := intLit(0)
	for i := int64(0); i < 3; i++ {
		inr := app(SBool, "<", intLit(i), c.ndRank(x))
		c.oblige(st, "pre@call", "C04.bulk-in-bounds", []string{"C04", "C17"}, and(app(SBool, ">=", ext[i], zero),
			implies(inr, and(app(SBool, "<=", zero, lo[i]), app(SBool, "<=", addInt(lo[i], ext[i]), c.ndDim(x, intLit(i))))),
			implies(not(inr), and(eq(lo[i], zero), eq(ext[i], intLit(1))))), pos, fmt.Sprintf("%s: axis %d of the written block lies inside the array", what, i))
	}
	cell := func(a [3]string) string { return fmt.Sprintf("(nd_idx %s %s %s %s)", x.Ref.S, a[0], a[1], a[2]) }
	inj := T{fmt.Sprintf("(forall ((%s Int) (%s Int) (%s Int) (%s Int) (%s Int) (%s Int)) (! (=> (and %s %s (= %s %s)) (and (= %s %s) (= %s %s) (= %s %s))) :pattern (%s %s)))",
		v[0], v[1], v[2], w[0], w[1], w[2], box(v), box(w), cell(v), cell(w), v[0], w[0], v[1], w[1], v[2], w[2], cell(v), cell(w)), SBool}
	c.oblige(st, "pre@call", "C04.bulk-distinct-cells", []string{"C04", "C17"}, inj, pos, what+": the elements of the written block are distinct cells")
	if c.fc != nil && c.specMode == 0 {
		var alts []T
		for _, cl := range c.fc.Clauses {
			if cl.Kind != "writes" {
				continue
			}
			env := fr.envAt(fr.curBlock, st, nil)
			env.atLatch = true
			env.bound = map[string]Val{"wroot": root, "widx": T{cell(v), SInt}}
			c.inQuant++
			alts = append(alts, c.evalBool(env, cl.Expr))
			c.inQuant--
		}
		if len(alts) > 0 {
			g := T{fmt.Sprintf("(forall ((%s Int) (%s Int) (%s Int)) (=> %s %s))", v[0], v[1], v[2], box(v), or(alts...).S), SBool}
			c.oblige(st, "frame", "C04.frame", []string{"C04", "C05"}, g, pos, what+": the written block stays within the cells this call may write")
		}
	}
	na := c.fresh("LOCb", arrSort(k))
	oldA := c.sel(h, root)
	c.emit(fmt.Sprintf("(assert (=> %s (forall ((%s Int) (%s Int) (%s Int)) (! (=> %s (= (select %s %s) %s)) :pattern (%s)))))",
		st.reach.S, v[0], v[1], v[2], box(v), na.S, cell(v), val(v), cell(v)))
	qp := fmt.Sprintf("q_p_%d", n)
	c.emit(fmt.Sprintf("(assert (=> %s (forall ((%s Int)) (! (=> (forall ((%s Int) (%s Int) (%s Int)) (=> %s (not (= %s %s)))) (= (select %s %s) (select %s %s))) :pattern ((select %s %s))))))",
		st.reach.S, qp, v[0], v[1], v[2], box(v), qp, cell(v), na.S, qp, oldA.S, qp, na.S, qp))
	st.heaps[name] = c.def("LOC", c.sto(h, root, na))
	c.writeLog = append(c.writeLog, writeRec{heap: name, key: nil, sort: heapSort(k)})
}
